#!/bin/sh
# Development aid: the regression of regress_seeded.sh (every seeded change against the quick check of
# the property it was written against), but through mutant_iso.sh in K isolated slots side by side, so
# that /repo stays untouched and the wall-clock time is ~1/K.   ./regress_iso.sh [K] [pattern]
K="${1:-4}"; PAT="${2:-}"
cd /verif || exit 2
ls -d seeded/*/ | grep -E "${PAT:-.}" | sed 's#/$##' > /tmp/vpm_regress_list.$$
i=0
while [ $i -lt "$K" ]; do
    ( awk -v k="$K" -v i="$i" 'NR % k == i' /tmp/vpm_regress_list.$$ | while read -r d; do
        n=$(basename "$d"); id=${n%%-*}
        ./mutant_iso.sh rg$i "$d/patch.diff" -- "$id"
      done > /tmp/vpm_regress_out.$$.$i 2>&1 ) &
    i=$((i + 1))
done
wait
cat /tmp/vpm_regress_out.$$.* | sort
rm -f /tmp/vpm_regress_list.$$ /tmp/vpm_regress_out.$$.*
