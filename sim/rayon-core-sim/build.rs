// We need a build script to use `link = "rayon-core"`.  But we're not
// *actually* linking to anything, just making sure that we're the only
// rayon-core in use.
fn main() {
    // we don't need to rebuild for anything else
    println!("cargo:rerun-if-changed=build.rs");
}
