#![cfg(test)]

use std::sync::atomic::{AtomicUsize, Ordering};
use std::sync::mpsc::channel;
use std::sync::{Arc, Mutex};

use crate::{join, Scope, ScopeFifo, ThreadPool, ThreadPoolBuilder};

#[test]
#[should_panic(expected = "Hello, world!")]
fn panic_propagate() {
    let thread_pool = ThreadPoolBuilder::new().build().unwrap();
    thread_pool.install(|| {
        panic!("Hello, world!");
    });
}

#[test]
#[cfg_attr(any(target_os = "emscripten", target_family = "wasm"), ignore)]
fn workers_stop() {
    let registry;

    {
        // once we exit this block, thread pool will be dropped
        let thread_pool = ThreadPoolBuilder::new().num_threads(22).build().unwrap();
        registry = thread_pool.install(|| {
            // do some work on these threads
            join_a_lot(22);

            Arc::clone(&thread_pool.registry)
        });
        assert_eq!(registry.num_threads(), 22);
    }

    // once thread pool is dropped, registry should terminate, which
    // should lead to worker threads stopping
    registry.wait_until_stopped();
}

fn join_a_lot(n: usize) {
    if n > 0 {
        join(|| join_a_lot(n - 1), || join_a_lot(n - 1));
    }
}

#[test]
#[cfg_attr(any(target_os = "emscripten", target_family = "wasm"), ignore)]
fn sleeper_stop() {
    use std::{thread, time};

    let registry;

    {
        // once we exit this block, thread pool will be dropped
        let thread_pool = ThreadPoolBuilder::new().num_threads(22).build().unwrap();
        registry = Arc::clone(&thread_pool.registry);

        // Give time for at least some of the thread pool to fall asleep.
        thread::sleep(time::Duration::from_secs(1));
    }

    // once thread pool is dropped, registry should terminate, which
    // should lead to worker threads stopping
    registry.wait_until_stopped();
}

/// Creates a start/exit handler that increments an atomic counter.
fn count_handler() -> (Arc<AtomicUsize>, impl Fn(usize)) {
    let count = Arc::new(AtomicUsize::new(0));
    (Arc::clone(&count), move |_| {
        count.fetch_add(1, Ordering::SeqCst);
    })
}

/// Wait until a counter is no longer shared, then return its value.
fn wait_for_counter(mut counter: Arc<AtomicUsize>) -> usize {
    use std::{thread, time};

    for _ in 0..60 {
        counter = match Arc::try_unwrap(counter) {
            Ok(counter) => return counter.into_inner(),
            Err(counter) => {
                thread::sleep(time::Duration::from_secs(1));
                counter
            }
        };
    }

    // That's too long!
    panic!("Counter is still shared!");
}

#[test]
#[cfg_attr(any(target_os = "emscripten", target_family = "wasm"), ignore)]
fn failed_thread_stack() {
    // Note: we first tried to force failure with a `usize::MAX` stack, but
    // macOS and Windows weren't fazed, or at least didn't fail the way we want.
    // They work with `isize::MAX`, but 32-bit platforms may feasibly allocate a
    // 2GB stack, so it might not fail until the second thread.
    let stack_size = isize::MAX as usize;

    let (start_count, start_handler) = count_handler();
    let (exit_count, exit_handler) = count_handler();
    let builder = ThreadPoolBuilder::new()
        .num_threads(10)
        .stack_size(stack_size)
        .start_handler(start_handler)
        .exit_handler(exit_handler);

    let pool = builder.build();
    assert!(pool.is_err(), "thread stack should have failed!");

    // With such a huge stack, 64-bit will probably fail on the first thread;
    // 32-bit might manage the first 2GB, but certainly fail the second.
    let start_count = wait_for_counter(start_count);
    assert!(start_count <= 1);
    assert_eq!(start_count, wait_for_counter(exit_count));
}

#[test]
#[cfg_attr(not(panic = "unwind"), ignore)]
fn panic_thread_name() {
    let (start_count, start_handler) = count_handler();
    let (exit_count, exit_handler) = count_handler();
    let builder = ThreadPoolBuilder::new()
        .num_threads(10)
        .start_handler(start_handler)
        .exit_handler(exit_handler)
        .thread_name(|i| {
            if i >= 5 {
                panic!();
            }
            format!("panic_thread_name#{i}")
        });

    let pool = crate::unwind::halt_unwinding(|| builder.build());
    assert!(pool.is_err(), "thread-name panic should propagate!");

    // Assuming they're created in order, threads 0 through 4 should have
    // been started already, and then terminated by the panic.
    assert_eq!(5, wait_for_counter(start_count));
    assert_eq!(5, wait_for_counter(exit_count));
}

#[test]
#[cfg_attr(any(target_os = "emscripten", target_family = "wasm"), ignore)]
fn self_install() {
    let pool = ThreadPoolBuilder::new().num_threads(1).build().unwrap();

    // If the inner `install` blocks, then nothing will actually run it!
    assert!(pool.install(|| pool.install(|| true)));
}

#[test]
#[cfg_attr(any(target_os = "emscripten", target_family = "wasm"), ignore)]
fn mutual_install() {
    let pool1 = ThreadPoolBuilder::new().num_threads(1).build().unwrap();
    let pool2 = ThreadPoolBuilder::new().num_threads(1).build().unwrap();

    let ok = pool1.install(|| {
        // This creates a dependency from `pool1` -> `pool2`
        pool2.install(|| {
            // This creates a dependency from `pool2` -> `pool1`
            pool1.install(|| {
                // If they blocked on inter-pool installs, there would be no
                // threads left to run this!
                true
            })
        })
    });
    assert!(ok);
}

#[test]
#[cfg_attr(any(target_os = "emscripten", target_family = "wasm"), ignore)]
fn mutual_install_sleepy() {
    use std::{thread, time};

    let pool1 = ThreadPoolBuilder::new().num_threads(1).build().unwrap();
    let pool2 = ThreadPoolBuilder::new().num_threads(1).build().unwrap();

    let ok = pool1.install(|| {
        // This creates a dependency from `pool1` -> `pool2`
        pool2.install(|| {
            // Give `pool1` time to fall asleep.
            thread::sleep(time::Duration::from_secs(1));

            // This creates a dependency from `pool2` -> `pool1`
            pool1.install(|| {
                // Give `pool2` time to fall asleep.
                thread::sleep(time::Duration::from_secs(1));

                // If they blocked on inter-pool installs, there would be no
                // threads left to run this!
                true
            })
        })
    });
    assert!(ok);
}

#[test]
#[allow(deprecated)]
#[cfg_attr(any(target_os = "emscripten", target_family = "wasm"), ignore)]
fn check_thread_pool_new() {
    let pool = ThreadPool::new(crate::Configuration::new().num_threads(22)).unwrap();
    assert_eq!(pool.current_num_threads(), 22);
}

macro_rules! test_scope_order {
    ($scope:ident => $spawn:ident) => {{
        let builder = ThreadPoolBuilder::new().num_threads(1);
        let pool = builder.build().unwrap();
        pool.install(|| {
            let vec = Mutex::new(vec![]);
            pool.$scope(|scope| {
                let vec = &vec;
                for i in 0..10 {
                    scope.$spawn(move |_| {
                        vec.lock().unwrap().push(i);
                    });
                }
            });
            vec.into_inner().unwrap()
        })
    }};
}

#[test]
#[cfg_attr(any(target_os = "emscripten", target_family = "wasm"), ignore)]
fn scope_lifo_order() {
    let vec = test_scope_order!(scope => spawn);
    let expected: Vec<i32> = (0..10).rev().collect(); // LIFO -> reversed
    assert_eq!(vec, expected);
}

#[test]
#[cfg_attr(any(target_os = "emscripten", target_family = "wasm"), ignore)]
fn scope_fifo_order() {
    let vec = test_scope_order!(scope_fifo => spawn_fifo);
    let expected: Vec<i32> = (0..10).collect(); // FIFO -> natural order
    assert_eq!(vec, expected);
}

macro_rules! test_spawn_order {
    ($spawn:ident) => {{
        let builder = ThreadPoolBuilder::new().num_threads(1);
        let pool = &builder.build().unwrap();
        let (tx, rx) = channel();
        pool.install(move || {
            for i in 0..10 {
                let tx = tx.clone();
                pool.$spawn(move || {
                    tx.send(i).unwrap();
                });
            }
        });
        rx.iter().collect::<Vec<i32>>()
    }};
}

#[test]
#[cfg_attr(any(target_os = "emscripten", target_family = "wasm"), ignore)]
fn spawn_lifo_order() {
    let vec = test_spawn_order!(spawn);
    let expected: Vec<i32> = (0..10).rev().collect(); // LIFO -> reversed
    assert_eq!(vec, expected);
}

#[test]
#[cfg_attr(any(target_os = "emscripten", target_family = "wasm"), ignore)]
fn spawn_fifo_order() {
    let vec = test_spawn_order!(spawn_fifo);
    let expected: Vec<i32> = (0..10).collect(); // FIFO -> natural order
    assert_eq!(vec, expected);
}

#[test]
#[cfg_attr(any(target_os = "emscripten", target_family = "wasm"), ignore)]
fn nested_scopes() {
    // Create matching scopes for every thread pool.
    fn nest<'scope, OP>(pools: &[ThreadPool], scopes: Vec<&Scope<'scope>>, op: OP)
    where
        OP: FnOnce(&[&Scope<'scope>]) + Send,
    {
        if let Some((pool, tail)) = pools.split_first() {
            pool.scope(move |s| {
                // This move reduces the reference lifetimes by variance to match s,
                // but the actual scopes are still tied to the invariant 'scope.
                let mut scopes = scopes;
                scopes.push(s);
                nest(tail, scopes, op)
            })
        } else {
            (op)(&scopes)
        }
    }

    let pools: Vec<_> = (0..10)
        .map(|_| ThreadPoolBuilder::new().num_threads(1).build().unwrap())
        .collect();

    let counter = AtomicUsize::new(0);
    nest(&pools, vec![], |scopes| {
        for &s in scopes {
            s.spawn(|_| {
                // Our 'scope lets us borrow the counter in every pool.
                counter.fetch_add(1, Ordering::Relaxed);
            });
        }
    });
    assert_eq!(counter.into_inner(), pools.len());
}

#[test]
#[cfg_attr(any(target_os = "emscripten", target_family = "wasm"), ignore)]
fn nested_fifo_scopes() {
    // Create matching fifo scopes for every thread pool.
    fn nest<'scope, OP>(pools: &[ThreadPool], scopes: Vec<&ScopeFifo<'scope>>, op: OP)
    where
        OP: FnOnce(&[&ScopeFifo<'scope>]) + Send,
    {
        if let Some((pool, tail)) = pools.split_first() {
            pool.scope_fifo(move |s| {
                // This move reduces the reference lifetimes by variance to match s,
                // but the actual scopes are still tied to the invariant 'scope.
                let mut scopes = scopes;
                scopes.push(s);
                nest(tail, scopes, op)
            })
        } else {
            (op)(&scopes)
        }
    }

    let pools: Vec<_> = (0..10)
        .map(|_| ThreadPoolBuilder::new().num_threads(1).build().unwrap())
        .collect();

    let counter = AtomicUsize::new(0);
    nest(&pools, vec![], |scopes| {
        for &s in scopes {
            s.spawn_fifo(|_| {
                // Our 'scope lets us borrow the counter in every pool.
                counter.fetch_add(1, Ordering::Relaxed);
            });
        }
    });
    assert_eq!(counter.into_inner(), pools.len());
}

#[test]
#[cfg_attr(any(target_os = "emscripten", target_family = "wasm"), ignore)]
fn in_place_scope_no_deadlock() {
    let pool = ThreadPoolBuilder::new().num_threads(1).build().unwrap();
    let (tx, rx) = channel();
    let rx_ref = &rx;
    pool.in_place_scope(move |s| {
        // With regular scopes this closure would never run because this scope op
        // itself would block the only worker thread.
        s.spawn(move |_| {
            tx.send(()).unwrap();
        });
        rx_ref.recv().unwrap();
    });
}

#[test]
#[cfg_attr(any(target_os = "emscripten", target_family = "wasm"), ignore)]
fn in_place_scope_fifo_no_deadlock() {
    let pool = ThreadPoolBuilder::new().num_threads(1).build().unwrap();
    let (tx, rx) = channel();
    let rx_ref = &rx;
    pool.in_place_scope_fifo(move |s| {
        // With regular scopes this closure would never run because this scope op
        // itself would block the only worker thread.
        s.spawn_fifo(move |_| {
            tx.send(()).unwrap();
        });
        rx_ref.recv().unwrap();
    });
}

#[test]
fn yield_now_to_spawn() {
    let (tx, rx) = channel();

    // Queue a regular spawn.
    crate::spawn(move || tx.send(22).unwrap());

    // The single-threaded fallback mode (for wasm etc.) won't
    // get a chance to run the spawn if we never yield to it.
    crate::registry::in_worker(move |_, _| {
        crate::yield_now();
    });

    // The spawn **must** have started by now, but we still might have to wait
    // for it to finish if a different thread stole it first.
    assert_eq!(22, rx.recv().unwrap());
}

#[test]
fn yield_local_to_spawn() {
    let (tx, rx) = channel();

    // Queue a regular spawn.
    crate::spawn(move || tx.send(22).unwrap());

    // The single-threaded fallback mode (for wasm etc.) won't
    // get a chance to run the spawn if we never yield to it.
    crate::registry::in_worker(move |_, _| {
        crate::yield_local();
    });

    // The spawn **must** have started by now, but we still might have to wait
    // for it to finish if a different thread stole it first.
    assert_eq!(22, rx.recv().unwrap());
}
