//! Contains support for user-managed thread pools, represented by the
//! the [`ThreadPool`] type (see that struct for details).

use crate::broadcast::{self, BroadcastContext};
use crate::join;
use crate::registry::{Registry, ThreadSpawn, WorkerThread};
use crate::scope::{do_in_place_scope, do_in_place_scope_fifo};
use crate::spawn;
use crate::{scope, Scope};
use crate::{scope_fifo, ScopeFifo};
use crate::{ThreadPoolBuildError, ThreadPoolBuilder};
use std::error::Error;
use std::fmt;
use std::sync::Arc;

mod test;

/// Represents a user-created [thread pool].
///
/// Use a [`ThreadPoolBuilder`] to specify the number and/or names of threads
/// in the pool. After calling [`ThreadPoolBuilder::build()`], you can then
/// execute functions explicitly within this [`ThreadPool`] using
/// [`ThreadPool::install()`]. By contrast, top-level rayon functions
/// (like `join()`) will execute implicitly within the current thread pool.
///
///
/// ## Creating a ThreadPool
///
/// ```ignore-wasm
/// # use rayon_core as rayon;
/// let pool = rayon::ThreadPoolBuilder::new().num_threads(8).build().unwrap();
/// ```
///
/// [`install()`][`ThreadPool::install()`] executes a closure in one of the `ThreadPool`'s
/// threads. In addition, any other rayon operations called inside of `install()` will also
/// execute in the context of the `ThreadPool`.
///
/// When the `ThreadPool` is dropped, that's a signal for the threads it manages to terminate,
/// they will complete executing any remaining work that you have spawned, and automatically
/// terminate.
///
///
/// [thread pool]: https://en.wikipedia.org/wiki/Thread_pool
/// [`ThreadPoolBuilder::build()`]: ThreadPoolBuilder::build()
/// [`ThreadPool::install()`]: Self::install()
pub struct ThreadPool {
    registry: Arc<Registry>,
}

impl ThreadPool {
    #[deprecated(note = "Use `ThreadPoolBuilder::build`")]
    #[allow(deprecated)]
    /// Deprecated in favor of `ThreadPoolBuilder::build`.
    pub fn new(configuration: crate::Configuration) -> Result<ThreadPool, Box<dyn Error>> {
        Self::build(configuration.into_builder()).map_err(Box::from)
    }

    pub(super) fn build<S>(
        builder: ThreadPoolBuilder<S>,
    ) -> Result<ThreadPool, ThreadPoolBuildError>
    where
        S: ThreadSpawn,
    {
        let registry = Registry::new(builder)?;
        Ok(ThreadPool { registry })
    }

    /// Executes `op` within the thread pool. Any attempts to use
    /// `join`, `scope`, or parallel iterators will then operate
    /// within that thread pool.
    ///
    /// # Warning: thread-local data
    ///
    /// Because `op` is executing within the Rayon thread pool,
    /// thread-local data from the current thread will not be
    /// accessible.
    ///
    /// # Warning: execution order
    ///
    /// If the current thread is part of a different thread pool, it will try to
    /// keep busy while the `op` completes in its target pool, similar to
    /// calling [`ThreadPool::yield_now()`] in a loop. Therefore, it may
    /// potentially schedule other tasks to run on the current thread in the
    /// meantime. For example
    ///
    /// ```ignore-wasm
    /// # use rayon_core as rayon;
    /// fn main() {
    ///     rayon::ThreadPoolBuilder::new().num_threads(1).build_global().unwrap();
    ///     let pool = rayon_core::ThreadPoolBuilder::default().build().unwrap();
    ///     let do_it = || {
    ///         print!("one ");
    ///         pool.install(||{});
    ///         print!("two ");
    ///     };
    ///     rayon::join(|| do_it(), || do_it());
    /// }
    /// ```
    ///
    /// Since we configured just one thread in the global pool, one might
    /// expect `do_it()` to run sequentially, producing:
    ///
    /// ```ascii
    /// one two one two
    /// ```
    ///
    /// However each call to `install()` yields implicitly, allowing rayon to
    /// run multiple instances of `do_it()` concurrently on the single, global
    /// thread. The following output would be equally valid:
    ///
    /// ```ascii
    /// one one two two
    /// ```
    ///
    /// # Panics
    ///
    /// If `op` should panic, that panic will be propagated.
    ///
    /// ## Using `install()`
    ///
    /// ```ignore-wasm
    ///    # use rayon_core as rayon;
    ///    fn main() {
    ///         let pool = rayon::ThreadPoolBuilder::new().num_threads(8).build().unwrap();
    ///         let n = pool.install(|| fib(20));
    ///         println!("{}", n);
    ///    }
    ///
    ///    fn fib(n: usize) -> usize {
    ///         if n == 0 || n == 1 {
    ///             return n;
    ///         }
    ///         let (a, b) = rayon::join(|| fib(n - 1), || fib(n - 2)); // runs inside of `pool`
    ///         return a + b;
    ///     }
    /// ```
    pub fn install<OP, R>(&self, op: OP) -> R
    where
        OP: FnOnce() -> R + Send,
        R: Send,
    {
        self.registry.in_worker(|_, _| op())
    }

    /// Executes `op` within every thread in the thread pool. Any attempts to use
    /// `join`, `scope`, or parallel iterators will then operate within that
    /// thread pool.
    ///
    /// Broadcasts are executed on each thread after they have exhausted their
    /// local work queue, before they attempt work-stealing from other threads.
    /// The goal of that strategy is to run everywhere in a timely manner
    /// *without* being too disruptive to current work. There may be alternative
    /// broadcast styles added in the future for more or less aggressive
    /// injection, if the need arises.
    ///
    /// # Warning: thread-local data
    ///
    /// Because `op` is executing within the Rayon thread pool,
    /// thread-local data from the current thread will not be
    /// accessible.
    ///
    /// # Panics
    ///
    /// If `op` should panic on one or more threads, exactly one panic
    /// will be propagated, only after all threads have completed
    /// (or panicked) their own `op`.
    ///
    /// # Examples
    ///
    /// ```ignore-wasm
    ///    # use rayon_core as rayon;
    ///    use std::sync::atomic::{AtomicUsize, Ordering};
    ///
    ///    fn main() {
    ///         let pool = rayon::ThreadPoolBuilder::new().num_threads(5).build().unwrap();
    ///
    ///         // The argument gives context, including the index of each thread.
    ///         let v: Vec<usize> = pool.broadcast(|ctx| ctx.index() * ctx.index());
    ///         assert_eq!(v, &[0, 1, 4, 9, 16]);
    ///
    ///         // The closure can reference the local stack
    ///         let count = AtomicUsize::new(0);
    ///         pool.broadcast(|_| count.fetch_add(1, Ordering::Relaxed));
    ///         assert_eq!(count.into_inner(), 5);
    ///    }
    /// ```
    pub fn broadcast<OP, R>(&self, op: OP) -> Vec<R>
    where
        OP: Fn(BroadcastContext<'_>) -> R + Sync,
        R: Send,
    {
        // We assert that `self.registry` has not terminated.
        unsafe { broadcast::broadcast_in(op, &self.registry) }
    }

    /// Returns the (current) number of threads in the thread pool.
    ///
    /// # Future compatibility note
    ///
    /// Note that unless this thread pool was created with a
    /// [`ThreadPoolBuilder`] that specifies the number of threads,
    /// then this number may vary over time in future versions (see [the
    /// `num_threads()` method for details][snt]).
    ///
    /// [snt]: ThreadPoolBuilder::num_threads()
    #[inline]
    pub fn current_num_threads(&self) -> usize {
        self.registry.num_threads()
    }

    /// If called from a Rayon worker thread in this thread pool,
    /// returns the index of that thread; if not called from a Rayon
    /// thread, or called from a Rayon thread that belongs to a
    /// different thread pool, returns `None`.
    ///
    /// The index for a given thread will not change over the thread's
    /// lifetime. However, multiple threads may share the same index if
    /// they are in distinct thread pools.
    ///
    /// # Future compatibility note
    ///
    /// Currently, every thread pool (including the global
    /// thread pool) has a fixed number of threads, but this may
    /// change in future Rayon versions (see [the `num_threads()` method
    /// for details][snt]). In that case, the index for a
    /// thread would not change during its lifetime, but thread
    /// indices may wind up being reused if threads are terminated and
    /// restarted.
    ///
    /// [snt]: ThreadPoolBuilder::num_threads()
    #[inline]
    pub fn current_thread_index(&self) -> Option<usize> {
        let curr = self.registry.current_thread()?;
        Some(curr.index())
    }

    /// Returns true if the current worker thread currently has "local
    /// tasks" pending. This can be useful as part of a heuristic for
    /// deciding whether to spawn a new task or execute code on the
    /// current thread, particularly in breadth-first
    /// schedulers. However, keep in mind that this is an inherently
    /// racy check, as other worker threads may be actively "stealing"
    /// tasks from our local deque.
    ///
    /// **Background:** Rayon's uses a [work-stealing] scheduler. The
    /// key idea is that each thread has its own [deque] of
    /// tasks. Whenever a new task is spawned -- whether through
    /// `join()`, `Scope::spawn()`, or some other means -- that new
    /// task is pushed onto the thread's *local* deque. Worker threads
    /// have a preference for executing their own tasks; if however
    /// they run out of tasks, they will go try to "steal" tasks from
    /// other threads. This function therefore has an inherent race
    /// with other active worker threads, which may be removing items
    /// from the local deque.
    ///
    /// [work-stealing]: https://en.wikipedia.org/wiki/Work_stealing
    /// [deque]: https://en.wikipedia.org/wiki/Double-ended_queue
    #[inline]
    pub fn current_thread_has_pending_tasks(&self) -> Option<bool> {
        let curr = self.registry.current_thread()?;
        Some(!curr.local_deque_is_empty())
    }

    /// Execute `oper_a` and `oper_b` in the thread pool and return
    /// the results. Equivalent to `self.install(|| join(oper_a,
    /// oper_b))`.
    pub fn join<A, B, RA, RB>(&self, oper_a: A, oper_b: B) -> (RA, RB)
    where
        A: FnOnce() -> RA + Send,
        B: FnOnce() -> RB + Send,
        RA: Send,
        RB: Send,
    {
        self.install(|| join(oper_a, oper_b))
    }

    /// Creates a scope that executes within this thread pool.
    /// Equivalent to `self.install(|| scope(...))`.
    ///
    /// See also: [the `scope()` function].
    ///
    /// [the `scope()` function]: crate::scope()
    pub fn scope<'scope, OP, R>(&self, op: OP) -> R
    where
        OP: FnOnce(&Scope<'scope>) -> R + Send,
        R: Send,
    {
        self.install(|| scope(op))
    }

    /// Creates a scope that executes within this thread pool.
    /// Spawns from the same thread are prioritized in relative FIFO order.
    /// Equivalent to `self.install(|| scope_fifo(...))`.
    ///
    /// See also: [the `scope_fifo()` function].
    ///
    /// [the `scope_fifo()` function]: crate::scope_fifo()
    pub fn scope_fifo<'scope, OP, R>(&self, op: OP) -> R
    where
        OP: FnOnce(&ScopeFifo<'scope>) -> R + Send,
        R: Send,
    {
        self.install(|| scope_fifo(op))
    }

    /// Creates a scope that spawns work into this thread pool.
    ///
    /// See also: [the `in_place_scope()` function].
    ///
    /// [the `in_place_scope()` function]: crate::in_place_scope()
    pub fn in_place_scope<'scope, OP, R>(&self, op: OP) -> R
    where
        OP: FnOnce(&Scope<'scope>) -> R,
    {
        do_in_place_scope(Some(&self.registry), op)
    }

    /// Creates a scope that spawns work into this thread pool in FIFO order.
    ///
    /// See also: [the `in_place_scope_fifo()` function].
    ///
    /// [the `in_place_scope_fifo()` function]: crate::in_place_scope_fifo()
    pub fn in_place_scope_fifo<'scope, OP, R>(&self, op: OP) -> R
    where
        OP: FnOnce(&ScopeFifo<'scope>) -> R,
    {
        do_in_place_scope_fifo(Some(&self.registry), op)
    }

    /// Spawns an asynchronous task in this thread pool. This task will
    /// run in the implicit, global scope, which means that it may outlast
    /// the current stack frame -- therefore, it cannot capture any references
    /// onto the stack (you will likely need a `move` closure).
    ///
    /// See also: [the `spawn()` function defined on scopes][spawn].
    ///
    /// [spawn]: Scope::spawn()
    pub fn spawn<OP>(&self, op: OP)
    where
        OP: FnOnce() + Send + 'static,
    {
        // We assert that `self.registry` has not terminated.
        unsafe { spawn::spawn_in(op, &self.registry) }
    }

    /// Spawns an asynchronous task in this thread pool. This task will
    /// run in the implicit, global scope, which means that it may outlast
    /// the current stack frame -- therefore, it cannot capture any references
    /// onto the stack (you will likely need a `move` closure).
    ///
    /// See also: [the `spawn_fifo()` function defined on scopes][spawn_fifo].
    ///
    /// [spawn_fifo]: ScopeFifo::spawn_fifo()
    pub fn spawn_fifo<OP>(&self, op: OP)
    where
        OP: FnOnce() + Send + 'static,
    {
        // We assert that `self.registry` has not terminated.
        unsafe { spawn::spawn_fifo_in(op, &self.registry) }
    }

    /// Spawns an asynchronous task on every thread in this thread pool. This task
    /// will run in the implicit, global scope, which means that it may outlast the
    /// current stack frame -- therefore, it cannot capture any references onto the
    /// stack (you will likely need a `move` closure).
    pub fn spawn_broadcast<OP>(&self, op: OP)
    where
        OP: Fn(BroadcastContext<'_>) + Send + Sync + 'static,
    {
        // We assert that `self.registry` has not terminated.
        unsafe { broadcast::spawn_broadcast_in(op, &self.registry) }
    }

    /// Cooperatively yields execution to Rayon.
    ///
    /// This is similar to the general [`yield_now()`], but only if the current
    /// thread is part of *this* thread pool.
    ///
    /// Returns `Some(Yield::Executed)` if anything was executed, `Some(Yield::Idle)` if
    /// nothing was available, or `None` if the current thread is not part this pool.
    pub fn yield_now(&self) -> Option<Yield> {
        let curr = self.registry.current_thread()?;
        Some(curr.yield_now())
    }

    /// Cooperatively yields execution to local Rayon work.
    ///
    /// This is similar to the general [`yield_local()`], but only if the current
    /// thread is part of *this* thread pool.
    ///
    /// Returns `Some(Yield::Executed)` if anything was executed, `Some(Yield::Idle)` if
    /// nothing was available, or `None` if the current thread is not part this pool.
    pub fn yield_local(&self) -> Option<Yield> {
        let curr = self.registry.current_thread()?;
        Some(curr.yield_local())
    }
}

impl Drop for ThreadPool {
    fn drop(&mut self) {
        self.registry.terminate();
    }
}

impl fmt::Debug for ThreadPool {
    fn fmt(&self, fmt: &mut fmt::Formatter<'_>) -> fmt::Result {
        fmt.debug_struct("ThreadPool")
            .field("num_threads", &self.current_num_threads())
            .field("id", &self.registry.id())
            .finish()
    }
}

/// If called from a Rayon worker thread, returns the index of that
/// thread within its current pool; if not called from a Rayon thread,
/// returns `None`.
///
/// The index for a given thread will not change over the thread's
/// lifetime. However, multiple threads may share the same index if
/// they are in distinct thread pools.
///
/// See also: [the `ThreadPool::current_thread_index()` method][m].
///
/// [m]: ThreadPool::current_thread_index()
///
/// # Future compatibility note
///
/// Currently, every thread pool (including the global
/// thread pool) has a fixed number of threads, but this may
/// change in future Rayon versions (see [the `num_threads()` method
/// for details][snt]). In that case, the index for a
/// thread would not change during its lifetime, but thread
/// indices may wind up being reused if threads are terminated and
/// restarted.
///
/// [snt]: ThreadPoolBuilder::num_threads()
#[inline]
pub fn current_thread_index() -> Option<usize> {
    // [vpsim seam] a simulated executor, when installed, reports the simulated worker
    if let Some(ex) = crate::sim::current() {
        return ex.thread_index();
    }
    unsafe {
        let curr = WorkerThread::current().as_ref()?;
        Some(curr.index())
    }
}

/// If called from a Rayon worker thread, indicates whether that
/// thread's local deque still has pending tasks. Otherwise, returns
/// `None`. For more information, see [the
/// `ThreadPool::current_thread_has_pending_tasks()` method][m].
///
/// [m]: ThreadPool::current_thread_has_pending_tasks()
#[inline]
pub fn current_thread_has_pending_tasks() -> Option<bool> {
    unsafe {
        let curr = WorkerThread::current().as_ref()?;
        Some(!curr.local_deque_is_empty())
    }
}

/// Cooperatively yields execution to Rayon.
///
/// If the current thread is part of a rayon thread pool, this looks for a
/// single unit of pending work in the pool, then executes it. Completion of
/// that work might include nested work or further work stealing.
///
/// This is similar to [`std::thread::yield_now()`], but does not literally make
/// that call. If you are implementing a polling loop, you may want to also
/// yield to the OS scheduler yourself if no Rayon work was found.
///
/// Returns `Some(Yield::Executed)` if anything was executed, `Some(Yield::Idle)` if
/// nothing was available, or `None` if this thread is not part of any pool at all.
pub fn yield_now() -> Option<Yield> {
    unsafe {
        let thread = WorkerThread::current().as_ref()?;
        Some(thread.yield_now())
    }
}

/// Cooperatively yields execution to local Rayon work.
///
/// If the current thread is part of a rayon thread pool, this looks for a
/// single unit of pending work in this thread's queue, then executes it.
/// Completion of that work might include nested work or further work stealing.
///
/// This is similar to [`yield_now()`], but does not steal from other threads.
///
/// Returns `Some(Yield::Executed)` if anything was executed, `Some(Yield::Idle)` if
/// nothing was available, or `None` if this thread is not part of any pool at all.
pub fn yield_local() -> Option<Yield> {
    unsafe {
        let thread = WorkerThread::current().as_ref()?;
        Some(thread.yield_local())
    }
}

/// Result of [`yield_now()`] or [`yield_local()`].
#[derive(Clone, Copy, Debug, PartialEq, Eq)]
pub enum Yield {
    /// Work was found and executed.
    Executed,
    /// No available work was found.
    Idle,
}
