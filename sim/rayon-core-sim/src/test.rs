#![cfg(test)]

use crate::{ThreadPoolBuildError, ThreadPoolBuilder};
use std::sync::atomic::{AtomicUsize, Ordering};
use std::sync::{Arc, Barrier};

#[test]
#[cfg_attr(any(target_os = "emscripten", target_family = "wasm"), ignore)]
fn worker_thread_index() {
    let pool = ThreadPoolBuilder::new().num_threads(22).build().unwrap();
    assert_eq!(pool.current_num_threads(), 22);
    assert_eq!(pool.current_thread_index(), None);
    let index = pool.install(|| pool.current_thread_index().unwrap());
    assert!(index < 22);
}

#[test]
#[cfg_attr(any(target_os = "emscripten", target_family = "wasm"), ignore)]
fn start_callback_called() {
    let n_threads = 16;
    let n_called = Arc::new(AtomicUsize::new(0));
    // Wait for all the threads in the pool plus the one running tests.
    let barrier = Arc::new(Barrier::new(n_threads + 1));

    let b = Arc::clone(&barrier);
    let nc = Arc::clone(&n_called);
    let start_handler = move |_| {
        nc.fetch_add(1, Ordering::SeqCst);
        b.wait();
    };

    let conf = ThreadPoolBuilder::new()
        .num_threads(n_threads)
        .start_handler(start_handler);
    let _ = conf.build().unwrap();

    // Wait for all the threads to have been scheduled to run.
    barrier.wait();

    // The handler must have been called on every started thread.
    assert_eq!(n_called.load(Ordering::SeqCst), n_threads);
}

#[test]
#[cfg_attr(any(target_os = "emscripten", target_family = "wasm"), ignore)]
fn exit_callback_called() {
    let n_threads = 16;
    let n_called = Arc::new(AtomicUsize::new(0));
    // Wait for all the threads in the pool plus the one running tests.
    let barrier = Arc::new(Barrier::new(n_threads + 1));

    let b = Arc::clone(&barrier);
    let nc = Arc::clone(&n_called);
    let exit_handler = move |_| {
        nc.fetch_add(1, Ordering::SeqCst);
        b.wait();
    };

    let conf = ThreadPoolBuilder::new()
        .num_threads(n_threads)
        .exit_handler(exit_handler);
    {
        let _ = conf.build().unwrap();
        // Drop the pool so it stops the running threads.
    }

    // Wait for all the threads to have been scheduled to run.
    barrier.wait();

    // The handler must have been called on every exiting thread.
    assert_eq!(n_called.load(Ordering::SeqCst), n_threads);
}

#[test]
#[cfg_attr(any(target_os = "emscripten", target_family = "wasm"), ignore)]
fn handler_panics_handled_correctly() {
    let n_threads = 16;
    let n_called = Arc::new(AtomicUsize::new(0));
    // Wait for all the threads in the pool plus the one running tests.
    let start_barrier = Arc::new(Barrier::new(n_threads + 1));
    let exit_barrier = Arc::new(Barrier::new(n_threads + 1));

    let start_handler = move |_| {
        panic!("ensure panic handler is called when starting");
    };
    let exit_handler = move |_| {
        panic!("ensure panic handler is called when exiting");
    };

    let sb = Arc::clone(&start_barrier);
    let eb = Arc::clone(&exit_barrier);
    let nc = Arc::clone(&n_called);
    let panic_handler = move |_| {
        let val = nc.fetch_add(1, Ordering::SeqCst);
        if val < n_threads {
            sb.wait();
        } else {
            eb.wait();
        }
    };

    let conf = ThreadPoolBuilder::new()
        .num_threads(n_threads)
        .start_handler(start_handler)
        .exit_handler(exit_handler)
        .panic_handler(panic_handler);
    {
        let _ = conf.build().unwrap();

        // Wait for all the threads to start, panic in the start handler,
        // and been taken care of by the panic handler.
        start_barrier.wait();

        // Drop the pool so it stops the running threads.
    }

    // Wait for all the threads to exit, panic in the exit handler,
    // and been taken care of by the panic handler.
    exit_barrier.wait();

    // The panic handler must have been called twice on every thread.
    assert_eq!(n_called.load(Ordering::SeqCst), 2 * n_threads);
}

#[test]
#[cfg_attr(any(target_os = "emscripten", target_family = "wasm"), ignore)]
fn check_config_build() {
    let pool = ThreadPoolBuilder::new().num_threads(22).build().unwrap();
    assert_eq!(pool.current_num_threads(), 22);
}

/// Helper used by check_error_send_sync to ensure ThreadPoolBuildError is Send + Sync
fn _send_sync<T: Send + Sync>() {}

#[test]
fn check_error_send_sync() {
    _send_sync::<ThreadPoolBuildError>();
}

#[allow(deprecated)]
#[test]
#[cfg_attr(any(target_os = "emscripten", target_family = "wasm"), ignore)]
fn configuration() {
    let start_handler = move |_| {};
    let exit_handler = move |_| {};
    let panic_handler = move |_| {};
    let thread_name = move |i| format!("thread_name_{i}");

    // Ensure we can call all public methods on Configuration
    crate::Configuration::new()
        .thread_name(thread_name)
        .num_threads(5)
        .panic_handler(panic_handler)
        .stack_size(4e6 as usize)
        .breadth_first()
        .start_handler(start_handler)
        .exit_handler(exit_handler)
        .build()
        .unwrap();
}

#[test]
#[cfg_attr(any(target_os = "emscripten", target_family = "wasm"), ignore)]
fn default_pool() {
    ThreadPoolBuilder::default().build().unwrap();
}

/// Test that custom spawned threads get their `WorkerThread` cleared once
/// the pool is done with them, allowing them to be used with rayon again
/// later. e.g. WebAssembly want to have their own pool of available threads.
#[test]
#[cfg_attr(any(target_os = "emscripten", target_family = "wasm"), ignore)]
fn cleared_current_thread() -> Result<(), ThreadPoolBuildError> {
    let n_threads = 5;
    let mut handles = vec![];
    let pool = ThreadPoolBuilder::new()
        .num_threads(n_threads)
        .spawn_handler(|thread| {
            let handle = std::thread::spawn(move || {
                thread.run();

                // Afterward, the current thread shouldn't be set anymore.
                assert_eq!(crate::current_thread_index(), None);
            });
            handles.push(handle);
            Ok(())
        })
        .build()?;
    assert_eq!(handles.len(), n_threads);

    pool.install(|| assert!(crate::current_thread_index().is_some()));
    drop(pool);

    // Wait for all threads to make their assertions and exit
    for handle in handles {
        handle.join().unwrap();
    }

    Ok(())
}
