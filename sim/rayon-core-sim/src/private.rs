//! The public parts of this private module are used to create traits
//! that cannot be implemented outside of our own crate.  This way we
//! can feel free to extend those traits without worrying about it
//! being a breaking change for other implementations.

/// If this type is pub but not publicly reachable, third parties
/// can't name it and can't implement traits using it.
#[allow(missing_debug_implementations)]
pub struct PrivateMarker;

macro_rules! private_decl {
    () => {
        /// This trait is private; this method exists to make it
        /// impossible to implement outside the crate.
        #[doc(hidden)]
        fn __rayon_private__(&self) -> crate::private::PrivateMarker;
    };
}

macro_rules! private_impl {
    () => {
        fn __rayon_private__(&self) -> crate::private::PrivateMarker {
            crate::private::PrivateMarker
        }
    };
}
