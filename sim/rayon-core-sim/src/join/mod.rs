use crate::job::StackJob;
use crate::latch::SpinLatch;
use crate::registry::{self, WorkerThread};
use crate::unwind;
use std::any::Any;

use crate::FnContext;

#[cfg(any())]
mod test;

/// Takes two closures and *potentially* runs them in parallel. It
/// returns a pair of the results from those closures.
///
/// Conceptually, calling `join()` is similar to spawning two threads,
/// one executing each of the two closures. However, the
/// implementation is quite different and incurs very low
/// overhead. The underlying technique is called "work stealing": the
/// Rayon runtime uses a fixed pool of worker threads and attempts to
/// only execute code in parallel when there are idle CPUs to handle
/// it.
///
/// When `join` is called from outside the thread pool, the calling
/// thread will block while the closures execute in the pool.  When
/// `join` is called within the pool, the calling thread still actively
/// participates in the thread pool. It will begin by executing closure
/// A (on the current thread). While it is doing that, it will advertise
/// closure B as being available for other threads to execute. Once closure A
/// has completed, the current thread will try to execute closure B;
/// if however closure B has been stolen, then it will look for other work
/// while waiting for the thief to fully execute closure B. (This is the
/// typical work-stealing strategy).
///
/// # Examples
///
/// This example uses join to perform a quick-sort (note this is not a
/// particularly optimized implementation: if you **actually** want to
/// sort for real, you should prefer [the `par_sort` method] offered
/// by Rayon).
///
/// [the `par_sort` method]: ../rayon/slice/trait.ParallelSliceMut.html#method.par_sort
///
/// ```rust
/// # use rayon_core as rayon;
/// let mut v = vec![5, 1, 8, 22, 0, 44];
/// quick_sort(&mut v);
/// assert_eq!(v, vec![0, 1, 5, 8, 22, 44]);
///
/// fn quick_sort<T:PartialOrd+Send>(v: &mut [T]) {
///    if v.len() > 1 {
///        let mid = partition(v);
///        let (lo, hi) = v.split_at_mut(mid);
///        rayon::join(|| quick_sort(lo),
///                    || quick_sort(hi));
///    }
/// }
///
/// // Partition rearranges all items `<=` to the pivot
/// // item (arbitrary selected to be the last item in the slice)
/// // to the first half of the slice. It then returns the
/// // "dividing point" where the pivot is placed.
/// fn partition<T:PartialOrd+Send>(v: &mut [T]) -> usize {
///     let pivot = v.len() - 1;
///     let mut i = 0;
///     for j in 0..pivot {
///         if v[j] <= v[pivot] {
///             v.swap(i, j);
///             i += 1;
///         }
///     }
///     v.swap(i, pivot);
///     i
/// }
/// ```
///
/// # Warning about blocking I/O
///
/// The assumption is that the closures given to `join()` are
/// CPU-bound tasks that do not perform I/O or other blocking
/// operations. If you do perform I/O, and that I/O should block
/// (e.g., waiting for a network request), the overall performance may
/// be poor.  Moreover, if you cause one closure to be blocked waiting
/// on another (for example, using a channel), that could lead to a
/// deadlock.
///
/// # Panics
///
/// No matter what happens, both closures will always be executed.  If
/// a single closure panics, whether it be the first or second
/// closure, that panic will be propagated and hence `join()` will
/// panic with the same panic value. If both closures panic, `join()`
/// will panic with the panic value from the first closure.
pub fn join<A, B, RA, RB>(oper_a: A, oper_b: B) -> (RA, RB)
where
    A: FnOnce() -> RA + Send,
    B: FnOnce() -> RB + Send,
    RA: Send,
    RB: Send,
{
    #[inline]
    fn call<R>(f: impl FnOnce() -> R) -> impl FnOnce(FnContext) -> R {
        move |_| f()
    }

    join_context(call(oper_a), call(oper_b))
}

/// Identical to `join`, except that the closures have a parameter
/// that provides context for the way the closure has been called,
/// especially indicating whether they're executing on a different
/// thread than where `join_context` was called.  This will occur if
/// the second job is stolen by a different thread, or if
/// `join_context` was called from outside the thread pool to begin
/// with.
pub fn join_context<A, B, RA, RB>(oper_a: A, oper_b: B) -> (RA, RB)
where
    A: FnOnce(FnContext) -> RA + Send,
    B: FnOnce(FnContext) -> RB + Send,
    RA: Send,
    RB: Send,
{
    #[inline]
    fn call_a<R>(f: impl FnOnce(FnContext) -> R, injected: bool) -> impl FnOnce() -> R {
        move || f(FnContext::new(injected))
    }

    #[inline]
    fn call_b<R>(f: impl FnOnce(FnContext) -> R) -> impl FnOnce(bool) -> R {
        move |migrated| f(FnContext::new(migrated))
    }

    // [vpsim seam] a simulated executor, when installed, decides whether task b is
    // "stolen", in which order the two tasks complete and whether they overlap.
    if let Some(exec) = crate::sim::current() {
        let mut ra: Option<RA> = None;
        let mut rb: Option<RB> = None;
        let mut oa = Some(oper_a);
        let mut ob = Some(oper_b);
        {
            let mut fa = |ctx: bool| {
                ra = Some((oa.take().expect("task a ran twice"))(FnContext::new(ctx)));
            };
            let mut fb = |ctx: bool| {
                rb = Some((ob.take().expect("task b ran twice"))(FnContext::new(ctx)));
            };
            exec.join(&mut fa, &mut fb);
        }
        return (
            ra.expect("simulated executor did not run task a"),
            rb.expect("simulated executor did not run task b"),
        );
    }

    registry::in_worker(|worker_thread, injected| unsafe {
        // Create virtual wrapper for task b; this all has to be
        // done here so that the stack frame can keep it all live
        // long enough.
        let job_b = StackJob::new(call_b(oper_b), SpinLatch::new(worker_thread));
        let job_b_ref = job_b.as_job_ref();
        let job_b_id = job_b_ref.id();
        worker_thread.push(job_b_ref);

        // Execute task a; hopefully b gets stolen in the meantime.
        let status_a = unwind::halt_unwinding(call_a(oper_a, injected));
        let result_a = match status_a {
            Ok(v) => v,
            Err(err) => join_recover_from_panic(worker_thread, &job_b.latch, err),
        };

        // Now that task A has finished, try to pop job B from the
        // local stack.  It may already have been popped by job A; it
        // may also have been stolen. There may also be some tasks
        // pushed on top of it in the stack, and we will have to pop
        // those off to get to it.
        while !job_b.latch.probe() {
            let Some(job) = worker_thread.take_local_job() else {
                // Local deque is empty. Time to steal from other
                // threads.
                worker_thread.wait_until(&job_b.latch);
                debug_assert!(job_b.latch.probe());
                break;
            };
            if job_b_id == job.id() {
                // Found it! Let's run it.
                //
                // Note that this could panic, but it's ok if we unwind here.
                let result_b = job_b.run_inline(injected);
                return (result_a, result_b);
            }
            worker_thread.execute(job);
        }

        (result_a, job_b.into_result())
    })
}

/// If job A panics, we still cannot return until we are sure that job
/// B is complete. This is because it may contain references into the
/// enclosing stack frame(s).
#[cold] // cold path
unsafe fn join_recover_from_panic(
    worker_thread: &WorkerThread,
    job_b_latch: &SpinLatch<'_>,
    err: Box<dyn Any + Send>,
) -> ! {
    worker_thread.wait_until(job_b_latch);
    unwind::resume_unwinding(err)
}
