//! Tests for the join code.

use super::*;
use crate::ThreadPoolBuilder;
use rand::distr::StandardUniform;
use rand::{Rng, SeedableRng};
use rand_xorshift::XorShiftRng;

fn quick_sort<T: PartialOrd + Send>(v: &mut [T]) {
    if v.len() <= 1 {
        return;
    }

    let mid = partition(v);
    let (lo, hi) = v.split_at_mut(mid);
    join(|| quick_sort(lo), || quick_sort(hi));
}

fn partition<T: PartialOrd + Send>(v: &mut [T]) -> usize {
    let pivot = v.len() - 1;
    let mut i = 0;
    for j in 0..pivot {
        if v[j] <= v[pivot] {
            v.swap(i, j);
            i += 1;
        }
    }
    v.swap(i, pivot);
    i
}

fn seeded_rng() -> XorShiftRng {
    let mut seed = <XorShiftRng as SeedableRng>::Seed::default();
    (0..).zip(seed.as_mut()).for_each(|(i, x)| *x = i);
    XorShiftRng::from_seed(seed)
}

#[test]
fn sort() {
    let rng = seeded_rng();
    let mut data: Vec<u32> = rng.sample_iter(&StandardUniform).take(6 * 1024).collect();
    let mut sorted_data = data.clone();
    sorted_data.sort();
    quick_sort(&mut data);
    assert_eq!(data, sorted_data);
}

#[test]
#[cfg_attr(any(target_os = "emscripten", target_family = "wasm"), ignore)]
fn sort_in_pool() {
    let rng = seeded_rng();
    let mut data: Vec<u32> = rng.sample_iter(&StandardUniform).take(12 * 1024).collect();

    let pool = ThreadPoolBuilder::new().build().unwrap();
    let mut sorted_data = data.clone();
    sorted_data.sort();
    pool.install(|| quick_sort(&mut data));
    assert_eq!(data, sorted_data);
}

#[test]
#[should_panic(expected = "Hello, world!")]
fn panic_propagate_a() {
    join(|| panic!("Hello, world!"), || ());
}

#[test]
#[should_panic(expected = "Hello, world!")]
fn panic_propagate_b() {
    join(|| (), || panic!("Hello, world!"));
}

#[test]
#[should_panic(expected = "Hello, world!")]
fn panic_propagate_both() {
    join(|| panic!("Hello, world!"), || panic!("Goodbye, world!"));
}

#[test]
#[cfg_attr(not(panic = "unwind"), ignore)]
fn panic_b_still_executes() {
    let mut x = false;
    match unwind::halt_unwinding(|| join(|| panic!("Hello, world!"), || x = true)) {
        Ok(_) => panic!("failed to propagate panic from closure A,"),
        Err(_) => assert!(x, "closure b failed to execute"),
    }
}

#[test]
#[cfg_attr(any(target_os = "emscripten", target_family = "wasm"), ignore)]
fn join_context_both() {
    // If we're not in a pool, both should be marked stolen as they're injected.
    let (a_migrated, b_migrated) = join_context(|a| a.migrated(), |b| b.migrated());
    assert!(a_migrated);
    assert!(b_migrated);
}

#[test]
#[cfg_attr(any(target_os = "emscripten", target_family = "wasm"), ignore)]
fn join_context_neither() {
    // If we're already in a 1-thread pool, neither job should be stolen.
    let pool = ThreadPoolBuilder::new().num_threads(1).build().unwrap();
    let (a_migrated, b_migrated) =
        pool.install(|| join_context(|a| a.migrated(), |b| b.migrated()));
    assert!(!a_migrated);
    assert!(!b_migrated);
}

#[test]
#[cfg_attr(any(target_os = "emscripten", target_family = "wasm"), ignore)]
fn join_context_second() {
    use std::sync::Barrier;

    // If we're already in a 2-thread pool, the second job should be stolen.
    let barrier = Barrier::new(2);
    let pool = ThreadPoolBuilder::new().num_threads(2).build().unwrap();
    let (a_migrated, b_migrated) = pool.install(|| {
        join_context(
            |a| {
                barrier.wait();
                a.migrated()
            },
            |b| {
                barrier.wait();
                b.migrated()
            },
        )
    });
    assert!(!a_migrated);
    assert!(b_migrated);
}

#[test]
#[cfg_attr(any(target_os = "emscripten", target_family = "wasm"), ignore)]
fn join_counter_overflow() {
    const MAX: u32 = 500_000;

    let mut i = 0;
    let mut j = 0;
    let pool = ThreadPoolBuilder::new().num_threads(2).build().unwrap();

    // Hammer on join a bunch of times -- used to hit overflow debug-assertions
    // in JEC on 32-bit targets: https://github.com/rayon-rs/rayon/issues/797
    for _ in 0..MAX {
        pool.join(|| i += 1, || j += 1);
    }

    assert_eq!(i, MAX);
    assert_eq!(j, MAX);
}
