//! Package up unwind recovery. Note that if you are in some sensitive
//! place, you can use the `AbortIfPanic` helper to protect against
//! accidental panics in the rayon code itself.

use std::any::Any;
use std::panic::{self, AssertUnwindSafe};
use std::thread;

/// Executes `f` and captures any panic, translating that panic into a
/// `Err` result. The assumption is that any panic will be propagated
/// later with `resume_unwinding`, and hence `f` can be treated as
/// exception safe.
pub(super) fn halt_unwinding<F, R>(func: F) -> thread::Result<R>
where
    F: FnOnce() -> R,
{
    panic::catch_unwind(AssertUnwindSafe(func))
}

pub(super) fn resume_unwinding(payload: Box<dyn Any + Send>) -> ! {
    panic::resume_unwind(payload)
}

pub(super) struct AbortIfPanic;

impl Drop for AbortIfPanic {
    fn drop(&mut self) {
        eprintln!("Rayon: detected unexpected panic; aborting");
        ::std::process::abort();
    }
}
