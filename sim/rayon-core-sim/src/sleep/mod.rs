//! Code that decides when workers should go to sleep. See README.md
//! for an overview.

use crate::latch::CoreLatch;
use crate::sync::{Condvar, Mutex};
use crossbeam_utils::CachePadded;
use std::sync::atomic::Ordering;
use std::thread;

mod counters;
pub(crate) use self::counters::THREADS_MAX;
use self::counters::{AtomicCounters, JobsEventCounter};

/// The `Sleep` struct is embedded into each registry. It governs the waking and sleeping
/// of workers. It has callbacks that are invoked periodically at significant events,
/// such as when workers are looping and looking for work, when latches are set, or when
/// jobs are published, and it either blocks threads or wakes them in response to these
/// events. See the [`README.md`] in this module for more details.
///
/// [`README.md`] README.md
pub(super) struct Sleep {
    /// One "sleep state" per worker. Used to track if a worker is sleeping and to have
    /// them block.
    worker_sleep_states: Vec<CachePadded<WorkerSleepState>>,

    counters: AtomicCounters,
}

/// An instance of this struct is created when a thread becomes idle.
/// It is consumed when the thread finds work, and passed by `&mut`
/// reference for operations that preserve the idle state. (In other
/// words, producing one of these structs is evidence the thread is
/// idle.) It tracks state such as how long the thread has been idle.
pub(super) struct IdleState {
    /// What is worker index of the idle thread?
    worker_index: usize,

    /// How many rounds have we been circling without sleeping?
    rounds: u32,

    /// Once we become sleepy, what was the sleepy counter value?
    /// Set to `INVALID_SLEEPY_COUNTER` otherwise.
    jobs_counter: JobsEventCounter,
}

/// The "sleep state" for an individual worker.
#[derive(Default)]
struct WorkerSleepState {
    /// Set to true when the worker goes to sleep; set to false when
    /// the worker is notified or when it wakes.
    is_blocked: Mutex<bool>,

    condvar: Condvar,
}

const ROUNDS_UNTIL_SLEEPY: u32 = 32;
const ROUNDS_UNTIL_SLEEPING: u32 = ROUNDS_UNTIL_SLEEPY + 1;

impl Sleep {
    pub(super) fn new(n_threads: usize) -> Sleep {
        assert!(n_threads <= THREADS_MAX);
        Sleep {
            worker_sleep_states: (0..n_threads).map(|_| Default::default()).collect(),
            counters: AtomicCounters::new(),
        }
    }

    #[inline]
    pub(super) fn start_looking(&self, worker_index: usize) -> IdleState {
        self.counters.add_inactive_thread();

        IdleState {
            worker_index,
            rounds: 0,
            jobs_counter: JobsEventCounter::DUMMY,
        }
    }

    #[inline]
    pub(super) fn work_found(&self) {
        // If we were the last idle thread and other threads are still sleeping,
        // then we should wake up another thread.
        let threads_to_wake = self.counters.sub_inactive_thread();
        self.wake_any_threads(threads_to_wake as u32);
    }

    #[inline]
    pub(super) fn no_work_found(
        &self,
        idle_state: &mut IdleState,
        latch: &CoreLatch,
        has_injected_jobs: impl FnOnce() -> bool,
    ) {
        if idle_state.rounds < ROUNDS_UNTIL_SLEEPY {
            thread::yield_now();
            idle_state.rounds += 1;
        } else if idle_state.rounds == ROUNDS_UNTIL_SLEEPY {
            idle_state.jobs_counter = self.announce_sleepy();
            idle_state.rounds += 1;
            thread::yield_now();
        } else if idle_state.rounds < ROUNDS_UNTIL_SLEEPING {
            idle_state.rounds += 1;
            thread::yield_now();
        } else {
            debug_assert_eq!(idle_state.rounds, ROUNDS_UNTIL_SLEEPING);
            self.sleep(idle_state, latch, has_injected_jobs);
        }
    }

    #[cold]
    fn announce_sleepy(&self) -> JobsEventCounter {
        self.counters
            .increment_jobs_event_counter_if(JobsEventCounter::is_active)
            .jobs_counter()
    }

    #[cold]
    fn sleep(
        &self,
        idle_state: &mut IdleState,
        latch: &CoreLatch,
        has_injected_jobs: impl FnOnce() -> bool,
    ) {
        let worker_index = idle_state.worker_index;

        if !latch.get_sleepy() {
            return;
        }

        let sleep_state = &self.worker_sleep_states[worker_index];
        let mut is_blocked = sleep_state.is_blocked.lock().unwrap();
        debug_assert!(!*is_blocked);

        // Our latch was signalled. We should wake back up fully as we
        // will have some stuff to do.
        if !latch.fall_asleep() {
            idle_state.wake_fully();
            return;
        }

        loop {
            let counters = self.counters.load(Ordering::SeqCst);

            // Check if the JEC has changed since we got sleepy.
            debug_assert!(idle_state.jobs_counter.is_sleepy());
            if counters.jobs_counter() != idle_state.jobs_counter {
                // JEC has changed, so a new job was posted, but for some reason
                // we didn't see it. We should return to just before the SLEEPY
                // state so we can do another search and (if we fail to find
                // work) go back to sleep.
                idle_state.wake_partly();
                latch.wake_up();
                return;
            }

            // Otherwise, let's move from IDLE to SLEEPING.
            if self.counters.try_add_sleeping_thread(counters) {
                break;
            }
        }

        // Successfully registered as asleep.

        // We have one last check for injected jobs to do. This protects against
        // deadlock in the very unlikely event that
        //
        // - an external job is being injected while we are sleepy
        // - that job triggers the rollover over the JEC such that we don't see it
        // - we are the last active worker thread
        std::sync::atomic::fence(Ordering::SeqCst);
        if has_injected_jobs() {
            // If we see an externally injected job, then we have to 'wake
            // ourselves up'. (Ordinarily, `sub_sleeping_thread` is invoked by
            // the one that wakes us.)
            self.counters.sub_sleeping_thread();
        } else {
            // If we don't see an injected job (the normal case), then flag
            // ourselves as asleep and wait till we are notified.
            //
            // (Note that `is_blocked` is held under a mutex and the mutex was
            // acquired *before* we incremented the "sleepy counter". This means
            // that whomever is coming to wake us will have to wait until we
            // release the mutex in the call to `wait`, so they will see this
            // boolean as true.)
            *is_blocked = true;
            while *is_blocked {
                is_blocked = sleep_state.condvar.wait(is_blocked).unwrap();
            }
        }

        // Update other state:
        idle_state.wake_fully();
        latch.wake_up();
    }

    /// Notify the given thread that it should wake up (if it is
    /// sleeping).  When this method is invoked, we typically know the
    /// thread is asleep, though in rare cases it could have been
    /// awoken by (e.g.) new work having been posted.
    pub(super) fn notify_worker_latch_is_set(&self, target_worker_index: usize) {
        self.wake_specific_thread(target_worker_index);
    }

    /// Signals that `num_jobs` new jobs were injected into the thread
    /// pool from outside. This function will ensure that there are
    /// threads available to process them, waking threads from sleep
    /// if necessary.
    ///
    /// # Parameters
    ///
    /// - `num_jobs` -- lower bound on number of jobs available for stealing.
    ///   We'll try to get at least one thread per job.
    #[inline]
    pub(super) fn new_injected_jobs(&self, num_jobs: u32, queue_was_empty: bool) {
        // This fence is needed to guarantee that threads
        // as they are about to fall asleep, observe any
        // new jobs that may have been injected.
        std::sync::atomic::fence(Ordering::SeqCst);

        self.new_jobs(num_jobs, queue_was_empty)
    }

    /// Signals that `num_jobs` new jobs were pushed onto a thread's
    /// local deque. This function will try to ensure that there are
    /// threads available to process them, waking threads from sleep
    /// if necessary. However, this is not guaranteed: under certain
    /// race conditions, the function may fail to wake any new
    /// threads; in that case the existing thread should eventually
    /// pop the job.
    ///
    /// # Parameters
    ///
    /// - `num_jobs` -- lower bound on number of jobs available for stealing.
    ///   We'll try to get at least one thread per job.
    #[inline]
    pub(super) fn new_internal_jobs(&self, num_jobs: u32, queue_was_empty: bool) {
        self.new_jobs(num_jobs, queue_was_empty)
    }

    /// Common helper for `new_injected_jobs` and `new_internal_jobs`.
    #[inline]
    fn new_jobs(&self, num_jobs: u32, queue_was_empty: bool) {
        // Read the counters and -- if sleepy workers have announced themselves
        // -- announce that there is now work available. The final value of `counters`
        // with which we exit the loop thus corresponds to a state when
        let counters = self
            .counters
            .increment_jobs_event_counter_if(JobsEventCounter::is_sleepy);
        let num_awake_but_idle = counters.awake_but_idle_threads();
        let num_sleepers = counters.sleeping_threads();

        if num_sleepers == 0 {
            // nobody to wake
            return;
        }

        // Promote from u16 to u32 so we can interoperate with
        // num_jobs more easily.
        let num_awake_but_idle = num_awake_but_idle as u32;
        let num_sleepers = num_sleepers as u32;

        // If the queue is non-empty, then we always wake up a worker
        // -- clearly the existing idle jobs aren't enough. Otherwise,
        // check to see if we have enough idle workers.
        if !queue_was_empty {
            let num_to_wake = Ord::min(num_jobs, num_sleepers);
            self.wake_any_threads(num_to_wake);
        } else if num_awake_but_idle < num_jobs {
            let num_to_wake = Ord::min(num_jobs - num_awake_but_idle, num_sleepers);
            self.wake_any_threads(num_to_wake);
        }
    }

    #[cold]
    fn wake_any_threads(&self, mut num_to_wake: u32) {
        if num_to_wake > 0 {
            for i in 0..self.worker_sleep_states.len() {
                if self.wake_specific_thread(i) {
                    num_to_wake -= 1;
                    if num_to_wake == 0 {
                        return;
                    }
                }
            }
        }
    }

    fn wake_specific_thread(&self, index: usize) -> bool {
        let sleep_state = &self.worker_sleep_states[index];

        let mut is_blocked = sleep_state.is_blocked.lock().unwrap();
        if *is_blocked {
            *is_blocked = false;
            sleep_state.condvar.notify_one();

            // When the thread went to sleep, it will have incremented
            // this value. When we wake it, its our job to decrement
            // it. We could have the thread do it, but that would
            // introduce a delay between when the thread was
            // *notified* and when this counter was decremented. That
            // might mislead people with new work into thinking that
            // there are sleeping threads that they should try to
            // wake, when in fact there is nothing left for them to
            // do.
            self.counters.sub_sleeping_thread();

            true
        } else {
            false
        }
    }
}

impl IdleState {
    fn wake_fully(&mut self) {
        self.rounds = 0;
        self.jobs_counter = JobsEventCounter::DUMMY;
    }

    fn wake_partly(&mut self) {
        self.rounds = ROUNDS_UNTIL_SLEEPY;
        self.jobs_counter = JobsEventCounter::DUMMY;
    }
}
