use std::sync::atomic::{AtomicUsize, Ordering};

pub(super) struct AtomicCounters {
    /// Packs together a number of counters. The counters are ordered as
    /// follows, from least to most significant bits (here, we assuming
    /// that [`THREADS_BITS`] is equal to 10):
    ///
    /// * Bits 0..10: Stores the number of **sleeping threads**
    /// * Bits 10..20: Stores the number of **inactive threads**
    /// * Bits 20..: Stores the **job event counter** (JEC)
    ///
    /// This uses 10 bits ([`THREADS_BITS`]) to encode the number of threads. Note
    /// that the total number of bits (and hence the number of bits used for the
    /// JEC) will depend on whether we are using a 32- or 64-bit architecture.
    value: AtomicUsize,
}

#[derive(Copy, Clone)]
pub(super) struct Counters {
    word: usize,
}

/// A value read from the **Jobs Event Counter**.
/// See the [`README.md`](README.md) for more
/// coverage of how the jobs event counter works.
#[derive(Copy, Clone, Debug, PartialEq, PartialOrd)]
pub(super) struct JobsEventCounter(usize);

impl JobsEventCounter {
    pub(super) const DUMMY: JobsEventCounter = JobsEventCounter(usize::MAX);

    #[inline]
    pub(super) fn as_usize(self) -> usize {
        self.0
    }

    /// The JEC "is sleepy" if the last thread to increment it was in the
    /// process of becoming sleepy. This is indicated by its value being *even*.
    /// When new jobs are posted, they check if the JEC is sleepy, and if so
    /// they incremented it.
    #[inline]
    pub(super) fn is_sleepy(self) -> bool {
        (self.as_usize() & 1) == 0
    }

    /// The JEC "is active" if the last thread to increment it was posting new
    /// work. This is indicated by its value being *odd*. When threads get
    /// sleepy, they will check if the JEC is active, and increment it.
    #[inline]
    pub(super) fn is_active(self) -> bool {
        !self.is_sleepy()
    }
}

/// Number of bits used for the thread counters.
#[cfg(target_pointer_width = "64")]
const THREADS_BITS: usize = 16;

#[cfg(target_pointer_width = "32")]
const THREADS_BITS: usize = 8;

/// Bits to shift to select the sleeping threads
/// (used with `select_bits`).
#[allow(clippy::erasing_op)]
const SLEEPING_SHIFT: usize = 0 * THREADS_BITS;

/// Bits to shift to select the inactive threads
/// (used with `select_bits`).
#[allow(clippy::identity_op)]
const INACTIVE_SHIFT: usize = 1 * THREADS_BITS;

/// Bits to shift to select the JEC
/// (use JOBS_BITS).
const JEC_SHIFT: usize = 2 * THREADS_BITS;

/// Max value for the thread counters.
pub(crate) const THREADS_MAX: usize = (1 << THREADS_BITS) - 1;

/// Constant that can be added to add one sleeping thread.
const ONE_SLEEPING: usize = 1;

/// Constant that can be added to add one inactive thread.
/// An inactive thread is either idle, sleepy, or sleeping.
const ONE_INACTIVE: usize = 1 << INACTIVE_SHIFT;

/// Constant that can be added to add one to the JEC.
const ONE_JEC: usize = 1 << JEC_SHIFT;

impl AtomicCounters {
    #[inline]
    pub(super) fn new() -> AtomicCounters {
        AtomicCounters {
            value: AtomicUsize::new(0),
        }
    }

    /// Load and return the current value of the various counters.
    /// This value can then be given to other method which will
    /// attempt to update the counters via compare-and-swap.
    #[inline]
    pub(super) fn load(&self, ordering: Ordering) -> Counters {
        Counters::new(self.value.load(ordering))
    }

    #[inline]
    fn try_exchange(&self, old_value: Counters, new_value: Counters, ordering: Ordering) -> bool {
        self.value
            .compare_exchange(old_value.word, new_value.word, ordering, Ordering::Relaxed)
            .is_ok()
    }

    /// Adds an inactive thread. This cannot fail.
    ///
    /// This should be invoked when a thread enters its idle loop looking
    /// for work. It is decremented when work is found. Note that it is
    /// not decremented if the thread transitions from idle to sleepy or sleeping;
    /// so the number of inactive threads is always greater-than-or-equal
    /// to the number of sleeping threads.
    #[inline]
    pub(super) fn add_inactive_thread(&self) {
        self.value.fetch_add(ONE_INACTIVE, Ordering::SeqCst);
    }

    /// Increments the jobs event counter if `increment_when`, when applied to
    /// the current value, is true. Used to toggle the JEC from even (sleepy) to
    /// odd (active) or vice versa. Returns the final value of the counters, for
    /// which `increment_when` is guaranteed to return false.
    pub(super) fn increment_jobs_event_counter_if(
        &self,
        increment_when: impl Fn(JobsEventCounter) -> bool,
    ) -> Counters {
        loop {
            let old_value = self.load(Ordering::SeqCst);
            if increment_when(old_value.jobs_counter()) {
                let new_value = old_value.increment_jobs_counter();
                if self.try_exchange(old_value, new_value, Ordering::SeqCst) {
                    return new_value;
                }
            } else {
                return old_value;
            }
        }
    }

    /// Subtracts an inactive thread. This cannot fail. It is invoked
    /// when a thread finds work and hence becomes active. It returns the
    /// number of sleeping threads to wake up (if any).
    ///
    /// See `add_inactive_thread`.
    #[inline]
    pub(super) fn sub_inactive_thread(&self) -> usize {
        let old_value = Counters::new(self.value.fetch_sub(ONE_INACTIVE, Ordering::SeqCst));
        debug_assert!(
            old_value.inactive_threads() > 0,
            "sub_inactive_thread: old_value {old_value:?} has no inactive threads",
        );
        debug_assert!(
            old_value.sleeping_threads() <= old_value.inactive_threads(),
            "sub_inactive_thread: old_value {:?} had {} sleeping threads and {} inactive threads",
            old_value,
            old_value.sleeping_threads(),
            old_value.inactive_threads(),
        );

        // Current heuristic: whenever an inactive thread goes away, if
        // there are any sleeping threads, wake 'em up.
        let sleeping_threads = old_value.sleeping_threads();
        Ord::min(sleeping_threads, 2)
    }

    /// Subtracts a sleeping thread. This cannot fail, but it is only
    /// safe to do if you you know the number of sleeping threads is
    /// non-zero (i.e., because you have just awoken a sleeping
    /// thread).
    #[inline]
    pub(super) fn sub_sleeping_thread(&self) {
        let old_value = Counters::new(self.value.fetch_sub(ONE_SLEEPING, Ordering::SeqCst));
        debug_assert!(
            old_value.sleeping_threads() > 0,
            "sub_sleeping_thread: old_value {old_value:?} had no sleeping threads",
        );
        debug_assert!(
            old_value.sleeping_threads() <= old_value.inactive_threads(),
            "sub_sleeping_thread: old_value {:?} had {} sleeping threads and {} inactive threads",
            old_value,
            old_value.sleeping_threads(),
            old_value.inactive_threads(),
        );
    }

    #[inline]
    pub(super) fn try_add_sleeping_thread(&self, old_value: Counters) -> bool {
        debug_assert!(
            old_value.inactive_threads() > 0,
            "try_add_sleeping_thread: old_value {old_value:?} has no inactive threads",
        );
        debug_assert!(
            old_value.sleeping_threads() < THREADS_MAX,
            "try_add_sleeping_thread: old_value {old_value:?} has too many sleeping threads",
        );

        let mut new_value = old_value;
        new_value.word += ONE_SLEEPING;

        self.try_exchange(old_value, new_value, Ordering::SeqCst)
    }
}

#[inline]
fn select_thread(word: usize, shift: usize) -> usize {
    (word >> shift) & THREADS_MAX
}

#[inline]
fn select_jec(word: usize) -> usize {
    word >> JEC_SHIFT
}

impl Counters {
    #[inline]
    fn new(word: usize) -> Counters {
        Counters { word }
    }

    #[inline]
    fn increment_jobs_counter(self) -> Counters {
        // We can freely add to JEC because it occupies the most significant bits.
        // Thus it doesn't overflow into the other counters, just wraps itself.
        Counters {
            word: self.word.wrapping_add(ONE_JEC),
        }
    }

    #[inline]
    pub(super) fn jobs_counter(self) -> JobsEventCounter {
        JobsEventCounter(select_jec(self.word))
    }

    /// The number of threads that are not actively
    /// executing work. They may be idle, sleepy, or asleep.
    #[inline]
    pub(super) fn inactive_threads(self) -> usize {
        select_thread(self.word, INACTIVE_SHIFT)
    }

    #[inline]
    pub(super) fn awake_but_idle_threads(self) -> usize {
        debug_assert!(
            self.sleeping_threads() <= self.inactive_threads(),
            "sleeping threads: {} > raw idle threads {}",
            self.sleeping_threads(),
            self.inactive_threads()
        );
        self.inactive_threads() - self.sleeping_threads()
    }

    #[inline]
    pub(super) fn sleeping_threads(self) -> usize {
        select_thread(self.word, SLEEPING_SHIFT)
    }
}

impl std::fmt::Debug for Counters {
    fn fmt(&self, fmt: &mut std::fmt::Formatter<'_>) -> std::fmt::Result {
        let word = format!("{:016x}", self.word);
        fmt.debug_struct("Counters")
            .field("word", &word)
            .field("jobs", &self.jobs_counter().0)
            .field("inactive", &self.inactive_threads())
            .field("sleeping", &self.sleeping_threads())
            .finish()
    }
}
