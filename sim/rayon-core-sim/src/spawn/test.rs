use crate::scope;
use std::any::Any;
use std::sync::mpsc::channel;
use std::sync::Mutex;

use super::{spawn, spawn_fifo};
use crate::ThreadPoolBuilder;

#[test]
#[cfg_attr(any(target_os = "emscripten", target_family = "wasm"), ignore)]
fn spawn_then_join_in_worker() {
    let (tx, rx) = channel();
    scope(move |_| {
        spawn(move || tx.send(22).unwrap());
    });
    assert_eq!(22, rx.recv().unwrap());
}

#[test]
#[cfg_attr(any(target_os = "emscripten", target_family = "wasm"), ignore)]
fn spawn_then_join_outside_worker() {
    let (tx, rx) = channel();
    spawn(move || tx.send(22).unwrap());
    assert_eq!(22, rx.recv().unwrap());
}

#[test]
#[cfg_attr(not(panic = "unwind"), ignore)]
fn panic_fwd() {
    let (tx, rx) = channel();

    let tx = Mutex::new(tx);
    let panic_handler = move |err: Box<dyn Any + Send>| {
        let tx = tx.lock().unwrap();
        if let Some(&msg) = err.downcast_ref::<&str>() {
            if msg == "Hello, world!" {
                tx.send(1).unwrap();
            } else {
                tx.send(2).unwrap();
            }
        } else {
            tx.send(3).unwrap();
        }
    };

    let builder = ThreadPoolBuilder::new().panic_handler(panic_handler);

    builder
        .build()
        .unwrap()
        .spawn(move || panic!("Hello, world!"));

    assert_eq!(1, rx.recv().unwrap());
}

/// Test what happens when the thread pool is dropped but there are
/// still active asynchronous tasks. We expect the thread pool to stay
/// alive and executing until those threads are complete.
#[test]
#[cfg_attr(any(target_os = "emscripten", target_family = "wasm"), ignore)]
fn termination_while_things_are_executing() {
    let (tx0, rx0) = channel();
    let (tx1, rx1) = channel();

    // Create a thread pool and spawn some code in it, but then drop
    // our reference to it.
    {
        let thread_pool = ThreadPoolBuilder::new().build().unwrap();
        thread_pool.spawn(move || {
            let data = rx0.recv().unwrap();

            // At this point, we know the "main" reference to the
            // `ThreadPool` has been dropped, but there are still
            // active threads. Launch one more.
            spawn(move || {
                tx1.send(data).unwrap();
            });
        });
    }

    tx0.send(22).unwrap();
    let v = rx1.recv().unwrap();
    assert_eq!(v, 22);
}

#[test]
#[cfg_attr(not(panic = "unwind"), ignore)]
fn custom_panic_handler_and_spawn() {
    let (tx, rx) = channel();

    // Create a parallel closure that will send panics on the
    // channel; since the closure is potentially executed in parallel
    // with itself, we have to wrap `tx` in a mutex.
    let tx = Mutex::new(tx);
    let panic_handler = move |e: Box<dyn Any + Send>| {
        tx.lock().unwrap().send(e).unwrap();
    };

    // Execute an async that will panic.
    let builder = ThreadPoolBuilder::new().panic_handler(panic_handler);
    builder.build().unwrap().spawn(move || {
        panic!("Hello, world!");
    });

    // Check that we got back the panic we expected.
    let error = rx.recv().unwrap();
    if let Some(&msg) = error.downcast_ref::<&str>() {
        assert_eq!(msg, "Hello, world!");
    } else {
        panic!("did not receive a string from panic handler");
    }
}

#[test]
#[cfg_attr(not(panic = "unwind"), ignore)]
fn custom_panic_handler_and_nested_spawn() {
    let (tx, rx) = channel();

    // Create a parallel closure that will send panics on the
    // channel; since the closure is potentially executed in parallel
    // with itself, we have to wrap `tx` in a mutex.
    let tx = Mutex::new(tx);
    let panic_handler = move |e| {
        tx.lock().unwrap().send(e).unwrap();
    };

    // Execute an async that will (eventually) panic.
    const PANICS: usize = 3;
    let builder = ThreadPoolBuilder::new().panic_handler(panic_handler);
    builder.build().unwrap().spawn(move || {
        // launch 3 nested spawn-asyncs; these should be in the same
        // thread pool and hence inherit the same panic handler
        for _ in 0..PANICS {
            spawn(move || {
                panic!("Hello, world!");
            });
        }
    });

    // Check that we get back the panics we expected.
    for _ in 0..PANICS {
        let error = rx.recv().unwrap();
        if let Some(&msg) = error.downcast_ref::<&str>() {
            assert_eq!(msg, "Hello, world!");
        } else {
            panic!("did not receive a string from panic handler");
        }
    }
}

macro_rules! test_order {
    ($outer_spawn:ident, $inner_spawn:ident) => {{
        let builder = ThreadPoolBuilder::new().num_threads(1);
        let pool = builder.build().unwrap();
        let (tx, rx) = channel();
        pool.install(move || {
            for i in 0..10 {
                let tx = tx.clone();
                $outer_spawn(move || {
                    for j in 0..10 {
                        let tx = tx.clone();
                        $inner_spawn(move || {
                            tx.send(i * 10 + j).unwrap();
                        });
                    }
                });
            }
        });
        rx.iter().collect::<Vec<i32>>()
    }};
}

#[test]
#[cfg_attr(any(target_os = "emscripten", target_family = "wasm"), ignore)]
fn lifo_order() {
    // In the absence of stealing, `spawn()` jobs on a thread will run in LIFO order.
    let vec = test_order!(spawn, spawn);
    let expected: Vec<i32> = (0..100).rev().collect(); // LIFO -> reversed
    assert_eq!(vec, expected);
}

#[test]
#[cfg_attr(any(target_os = "emscripten", target_family = "wasm"), ignore)]
fn fifo_order() {
    // In the absence of stealing, `spawn_fifo()` jobs on a thread will run in FIFO order.
    let vec = test_order!(spawn_fifo, spawn_fifo);
    let expected: Vec<i32> = (0..100).collect(); // FIFO -> natural order
    assert_eq!(vec, expected);
}

#[test]
#[cfg_attr(any(target_os = "emscripten", target_family = "wasm"), ignore)]
fn lifo_fifo_order() {
    // LIFO on the outside, FIFO on the inside
    let vec = test_order!(spawn, spawn_fifo);
    let expected: Vec<i32> = (0..10)
        .rev()
        .flat_map(|i| (0..10).map(move |j| i * 10 + j))
        .collect();
    assert_eq!(vec, expected);
}

#[test]
#[cfg_attr(any(target_os = "emscripten", target_family = "wasm"), ignore)]
fn fifo_lifo_order() {
    // FIFO on the outside, LIFO on the inside
    let vec = test_order!(spawn_fifo, spawn);
    let expected: Vec<i32> = (0..10)
        .flat_map(|i| (0..10).rev().map(move |j| i * 10 + j))
        .collect();
    assert_eq!(vec, expected);
}

macro_rules! spawn_send {
    ($spawn:ident, $tx:ident, $i:expr) => {{
        let tx = $tx.clone();
        $spawn(move || tx.send($i).unwrap());
    }};
}

/// Test mixed spawns pushing a series of numbers, interleaved such
/// such that negative values are using the second kind of spawn.
macro_rules! test_mixed_order {
    ($pos_spawn:ident, $neg_spawn:ident) => {{
        let builder = ThreadPoolBuilder::new().num_threads(1);
        let pool = builder.build().unwrap();
        let (tx, rx) = channel();
        pool.install(move || {
            spawn_send!($pos_spawn, tx, 0);
            spawn_send!($neg_spawn, tx, -1);
            spawn_send!($pos_spawn, tx, 1);
            spawn_send!($neg_spawn, tx, -2);
            spawn_send!($pos_spawn, tx, 2);
            spawn_send!($neg_spawn, tx, -3);
            spawn_send!($pos_spawn, tx, 3);
        });
        rx.iter().collect::<Vec<i32>>()
    }};
}

#[test]
#[cfg_attr(any(target_os = "emscripten", target_family = "wasm"), ignore)]
fn mixed_lifo_fifo_order() {
    let vec = test_mixed_order!(spawn, spawn_fifo);
    let expected = vec![3, -1, 2, -2, 1, -3, 0];
    assert_eq!(vec, expected);
}

#[test]
#[cfg_attr(any(target_os = "emscripten", target_family = "wasm"), ignore)]
fn mixed_fifo_lifo_order() {
    let vec = test_mixed_order!(spawn_fifo, spawn);
    let expected = vec![0, -3, 1, -2, 2, -1, 3];
    assert_eq!(vec, expected);
}
