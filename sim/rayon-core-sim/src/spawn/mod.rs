use crate::job::*;
use crate::registry::Registry;
use crate::unwind;
use std::mem;
use std::sync::Arc;

/// Puts the task into the Rayon thread pool's job queue in the "static"
/// or "global" scope. Just like a standard thread, this task is not
/// tied to the current stack frame, and hence it cannot hold any
/// references other than those with `'static` lifetime. If you want
/// to spawn a task that references stack data, use [the `scope()`
/// function] to create a scope.
///
/// [the `scope()` function]: crate::scope()
///
/// Since tasks spawned with this function cannot hold references into
/// the enclosing stack frame, you almost certainly want to use a
/// `move` closure as their argument (otherwise, the closure will
/// typically hold references to any variables from the enclosing
/// function that you happen to use).
///
/// This API assumes that the closure is executed purely for its
/// side-effects (i.e., it might send messages, modify data protected
/// by a mutex, or some such thing).
///
/// There is no guaranteed order of execution for spawns, given that
/// other threads may steal tasks at any time. However, they are
/// generally prioritized in a LIFO order on the thread from which
/// they were spawned. Other threads always steal from the other end of
/// the deque, like FIFO order.  The idea is that "recent" tasks are
/// most likely to be fresh in the local CPU's cache, while other
/// threads can steal older "stale" tasks.  For an alternate approach,
/// consider [`spawn_fifo()`] instead.
///
/// # Panic handling
///
/// If this closure should panic, the resulting panic will be
/// propagated to the panic handler registered in the `ThreadPoolBuilder`,
/// if any.  See [`ThreadPoolBuilder::panic_handler()`] for more
/// details.
///
/// [`ThreadPoolBuilder::panic_handler()`]: crate::ThreadPoolBuilder::panic_handler()
///
/// # Examples
///
/// This code creates a Rayon task that increments a global counter.
///
/// ```rust
/// # use rayon_core as rayon;
/// use std::sync::atomic::{AtomicUsize, Ordering, ATOMIC_USIZE_INIT};
///
/// static GLOBAL_COUNTER: AtomicUsize = ATOMIC_USIZE_INIT;
///
/// rayon::spawn(move || {
///     GLOBAL_COUNTER.fetch_add(1, Ordering::SeqCst);
/// });
/// ```
pub fn spawn<F>(func: F)
where
    F: FnOnce() + Send + 'static,
{
    // We assert that current registry has not terminated.
    unsafe { spawn_in(func, &Registry::current()) }
}

/// Spawns an asynchronous job in `registry.`
///
/// Unsafe because `registry` must not yet have terminated.
pub(super) unsafe fn spawn_in<F>(func: F, registry: &Arc<Registry>)
where
    F: FnOnce() + Send + 'static,
{
    // We assert that this does not hold any references (we know
    // this because of the `'static` bound in the interface);
    // moreover, we assert that the code below is not supposed to
    // be able to panic, and hence the data won't leak but will be
    // enqueued into some deque for later execution.
    let abort_guard = unwind::AbortIfPanic; // just in case we are wrong, and code CAN panic
    let job_ref = spawn_job(func, registry);
    registry.inject_or_push(job_ref);
    mem::forget(abort_guard);
}

unsafe fn spawn_job<F>(func: F, registry: &Arc<Registry>) -> JobRef
where
    F: FnOnce() + Send + 'static,
{
    // Ensure that registry cannot terminate until this job has
    // executed. This ref is decremented at the (*) below.
    registry.increment_terminate_count();

    HeapJob::new({
        let registry = Arc::clone(registry);
        move || {
            registry.catch_unwind(func);
            registry.terminate(); // (*) permit registry to terminate now
        }
    })
    .into_static_job_ref()
}

/// Fires off a task into the Rayon thread pool in the "static" or
/// "global" scope.  Just like a standard thread, this task is not
/// tied to the current stack frame, and hence it cannot hold any
/// references other than those with `'static` lifetime. If you want
/// to spawn a task that references stack data, use [the `scope_fifo()`
/// function] to create a scope.
///
/// The behavior is essentially the same as [the `spawn`
/// function], except that calls from the same thread
/// will be prioritized in FIFO order. This is similar to the now-
/// deprecated [`breadth_first`] option, except the effect is isolated
/// to relative `spawn_fifo` calls, not all thread-pool tasks.
///
/// For more details on this design, see Rayon [RFC #1].
///
/// [the `scope_fifo()` function]: crate::scope_fifo()
/// [the `spawn` function]: crate::spawn()
/// [`breadth_first`]: crate::ThreadPoolBuilder::breadth_first
/// [RFC #1]: https://github.com/rayon-rs/rfcs/blob/main/accepted/rfc0001-scope-scheduling.md
///
/// # Panic handling
///
/// If this closure should panic, the resulting panic will be
/// propagated to the panic handler registered in the `ThreadPoolBuilder`,
/// if any.  See [`ThreadPoolBuilder::panic_handler()`] for more
/// details.
///
/// [`ThreadPoolBuilder::panic_handler()`]: crate::ThreadPoolBuilder::panic_handler
pub fn spawn_fifo<F>(func: F)
where
    F: FnOnce() + Send + 'static,
{
    // We assert that current registry has not terminated.
    unsafe { spawn_fifo_in(func, &Registry::current()) }
}

/// Spawns an asynchronous FIFO job in `registry.`
///
/// Unsafe because `registry` must not yet have terminated.
pub(super) unsafe fn spawn_fifo_in<F>(func: F, registry: &Arc<Registry>)
where
    F: FnOnce() + Send + 'static,
{
    // We assert that this does not hold any references (we know
    // this because of the `'static` bound in the interface);
    // moreover, we assert that the code below is not supposed to
    // be able to panic, and hence the data won't leak but will be
    // enqueued into some deque for later execution.
    let abort_guard = unwind::AbortIfPanic; // just in case we are wrong, and code CAN panic
    let job_ref = spawn_job(func, registry);

    // If we're in the pool, use our thread's private fifo for this thread to execute
    // in a locally-FIFO order.  Otherwise, just use the pool's global injector.
    match registry.current_thread() {
        Some(worker) => worker.push_fifo(job_ref),
        None => registry.inject(job_ref),
    }
    mem::forget(abort_guard);
}

#[cfg(test)]
mod test;
