//! [vpsim seam] Simulated executor hook.
//!
//! This module is the only addition of the `rayon-core-sim` fork (plus the three
//! call sites marked `[vpsim seam]` in `lib.rs`, `join/mod.rs`, `thread_pool/mod.rs`
//! and `registry.rs`).
//! When an executor is installed, `join`, `join_context` and `current_num_threads`
//! consult it instead of the real registry; with none installed the crate behaves
//! exactly like rayon-core 1.13.0 (needed for the miri layers, where the real pool
//! runs under miri's scheduler).

use std::sync::atomic::AtomicUsize;
use std::sync::{Arc, RwLock};

/// Number of times the real global registry was consulted. Must stay 0 in
/// simulated mode.
pub static REAL_POOL_ENTRIES: AtomicUsize = AtomicUsize::new(0);

/// The arms receive the value of `FnContext::migrated()` they should observe.
pub type Arm<'a> = &'a mut (dyn FnMut(bool) + Send);

/// A simulated work-stealing pool.
pub trait SimExec: Send + Sync {
    /// pool size reported by `current_num_threads`
    fn num_threads(&self) -> usize;
    /// Run both arms (each exactly once) in an order, with `migrated` flags and
    /// with an overlap that a real pool could produce.
    fn join(&self, a: Arm<'_>, b: Arm<'_>);
    /// simulated worker index of the code that is running now, reported by
    /// `current_thread_index` (None: outside any simulated parallel section)
    fn thread_index(&self) -> Option<usize> {
        None
    }
}

static EXEC: RwLock<Option<Arc<dyn SimExec>>> = RwLock::new(None);

/// install (or with `None`, remove) the simulated executor for the whole process
pub fn install(exec: Option<Arc<dyn SimExec>>) {
    *EXEC.write().unwrap_or_else(|e| e.into_inner()) = exec;
}

/// the currently installed executor
#[inline]
pub fn current() -> Option<Arc<dyn SimExec>> {
    EXEC.read().unwrap_or_else(|e| e.into_inner()).clone()
}
