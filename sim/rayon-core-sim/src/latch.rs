use std::marker::PhantomData;
use std::ops::Deref;
use std::sync::atomic::{AtomicUsize, Ordering};
use std::sync::Arc;

use crate::registry::{Registry, WorkerThread};
use crate::sync::{Condvar, Mutex};

/// We define various kinds of latches, which are all a primitive signaling
/// mechanism. A latch starts as false. Eventually someone calls `set()` and
/// it becomes true. You can test if it has been set by calling `probe()`.
///
/// Some kinds of latches, but not all, support a `wait()` operation
/// that will wait until the latch is set, blocking efficiently. That
/// is not part of the trait since it is not possibly to do with all
/// latches.
///
/// The intention is that `set()` is called once, but `probe()` may be
/// called any number of times. Once `probe()` returns true, the memory
/// effects that occurred before `set()` become visible.
///
/// It'd probably be better to refactor the API into two paired types,
/// but that's a bit of work, and this is not a public API.
///
/// ## Memory ordering
///
/// Latches need to guarantee two things:
///
/// - Once `probe()` returns true, all memory effects from the `set()`
///   are visible (in other words, the set should synchronize-with
///   the probe).
/// - Once `set()` occurs, the next `probe()` *will* observe it.  This
///   typically requires a seq-cst ordering. See [the "tickle-then-get-sleepy" scenario in the sleep
///   README](/src/sleep/README.md#tickle-then-get-sleepy) for details.
pub(super) trait Latch {
    /// Set the latch, signalling others.
    ///
    /// # WARNING
    ///
    /// Setting a latch triggers other threads to wake up and (in some
    /// cases) complete. This may, in turn, cause memory to be
    /// deallocated and so forth. One must be very careful about this,
    /// and it's typically better to read all the fields you will need
    /// to access *before* a latch is set!
    ///
    /// This function operates on `*const Self` instead of `&self` to allow it
    /// to become dangling during this call. The caller must ensure that the
    /// pointer is valid upon entry, and not invalidated during the call by any
    /// actions other than `set` itself.
    unsafe fn set(this: *const Self);
}

pub(super) trait AsCoreLatch {
    fn as_core_latch(&self) -> &CoreLatch;
}

/// Latch is not set, owning thread is awake
const UNSET: usize = 0;

/// Latch is not set, owning thread is going to sleep on this latch
/// (but has not yet fallen asleep).
const SLEEPY: usize = 1;

/// Latch is not set, owning thread is asleep on this latch and
/// must be awoken.
const SLEEPING: usize = 2;

/// Latch is set.
const SET: usize = 3;

/// Spin latches are the simplest, most efficient kind, but they do
/// not support a `wait()` operation. They just have a boolean flag
/// that becomes true when `set()` is called.
#[derive(Debug)]
pub(super) struct CoreLatch {
    state: AtomicUsize,
}

impl CoreLatch {
    #[inline]
    fn new() -> Self {
        Self {
            state: AtomicUsize::new(0),
        }
    }

    /// Invoked by owning thread as it prepares to sleep. Returns true
    /// if the owning thread may proceed to fall asleep, false if the
    /// latch was set in the meantime.
    #[inline]
    pub(super) fn get_sleepy(&self) -> bool {
        self.state
            .compare_exchange(UNSET, SLEEPY, Ordering::SeqCst, Ordering::Relaxed)
            .is_ok()
    }

    /// Invoked by owning thread as it falls asleep sleep. Returns
    /// true if the owning thread should block, or false if the latch
    /// was set in the meantime.
    #[inline]
    pub(super) fn fall_asleep(&self) -> bool {
        self.state
            .compare_exchange(SLEEPY, SLEEPING, Ordering::SeqCst, Ordering::Relaxed)
            .is_ok()
    }

    /// Invoked by owning thread as it falls asleep sleep. Returns
    /// true if the owning thread should block, or false if the latch
    /// was set in the meantime.
    #[inline]
    pub(super) fn wake_up(&self) {
        if !self.probe() {
            let _ =
                self.state
                    .compare_exchange(SLEEPING, UNSET, Ordering::SeqCst, Ordering::Relaxed);
        }
    }

    /// Set the latch. If this returns true, the owning thread was sleeping
    /// and must be awoken.
    ///
    /// This is private because, typically, setting a latch involves
    /// doing some wakeups; those are encapsulated in the surrounding
    /// latch code.
    #[inline]
    unsafe fn set(this: *const Self) -> bool {
        let old_state = (*this).state.swap(SET, Ordering::AcqRel);
        old_state == SLEEPING
    }

    /// Test if this latch has been set.
    #[inline]
    pub(super) fn probe(&self) -> bool {
        self.state.load(Ordering::Acquire) == SET
    }
}

impl AsCoreLatch for CoreLatch {
    #[inline]
    fn as_core_latch(&self) -> &CoreLatch {
        self
    }
}

/// Spin latches are the simplest, most efficient kind, but they do
/// not support a `wait()` operation. They just have a boolean flag
/// that becomes true when `set()` is called.
pub(super) struct SpinLatch<'r> {
    core_latch: CoreLatch,
    registry: &'r Arc<Registry>,
    target_worker_index: usize,
    cross: bool,
}

impl<'r> SpinLatch<'r> {
    /// Creates a new spin latch that is owned by `thread`. This means
    /// that `thread` is the only thread that should be blocking on
    /// this latch -- it also means that when the latch is set, we
    /// will wake `thread` if it is sleeping.
    #[inline]
    pub(super) fn new(thread: &'r WorkerThread) -> SpinLatch<'r> {
        SpinLatch {
            core_latch: CoreLatch::new(),
            registry: thread.registry(),
            target_worker_index: thread.index(),
            cross: false,
        }
    }

    /// Creates a new spin latch for cross-thread-pool blocking.  Notably, we
    /// need to make sure the registry is kept alive after setting, so we can
    /// safely call the notification.
    #[inline]
    pub(super) fn cross(thread: &'r WorkerThread) -> SpinLatch<'r> {
        SpinLatch {
            cross: true,
            ..SpinLatch::new(thread)
        }
    }

    #[inline]
    pub(super) fn probe(&self) -> bool {
        self.core_latch.probe()
    }
}

impl AsCoreLatch for SpinLatch<'_> {
    #[inline]
    fn as_core_latch(&self) -> &CoreLatch {
        &self.core_latch
    }
}

impl Latch for SpinLatch<'_> {
    #[inline]
    unsafe fn set(this: *const Self) {
        let registry: &Registry = if (*this).cross {
            // Ensure the registry stays alive while we notify it.
            // Otherwise, it would be possible that we set the spin
            // latch and the other thread sees it and exits, causing
            // the registry to be deallocated, all before we get a
            // chance to invoke `registry.notify_worker_latch_is_set`.
            &Arc::clone((*this).registry)
        } else {
            // If this is not a "cross-registry" spin-latch, then the
            // thread which is performing `set` is itself ensuring
            // that the registry stays alive. However, that doesn't
            // include this *particular* `Arc` handle if the waiting
            // thread then exits, so we must completely dereference it.
            (*this).registry
        };
        let target_worker_index = (*this).target_worker_index;

        // NOTE: Once we `set`, the target may proceed and invalidate `this`!
        if CoreLatch::set(&(*this).core_latch) {
            // Subtle: at this point, we can no longer read from
            // `self`, because the thread owning this spin latch may
            // have awoken and deallocated the latch. Therefore, we
            // only use fields whose values we already read.
            registry.notify_worker_latch_is_set(target_worker_index);
        }
    }
}

/// A Latch starts as false and eventually becomes true. You can block
/// until it becomes true.
#[derive(Debug)]
pub(super) struct LockLatch {
    m: Mutex<bool>,
    v: Condvar,
}

impl LockLatch {
    #[inline]
    pub(super) const fn new() -> LockLatch {
        LockLatch {
            m: Mutex::new(false),
            v: Condvar::new(),
        }
    }

    /// Block until latch is set, then resets this lock latch so it can be reused again.
    pub(super) fn wait_and_reset(&self) {
        let mut guard = self.m.lock().unwrap();
        while !*guard {
            guard = self.v.wait(guard).unwrap();
        }
        *guard = false;
    }

    /// Block until latch is set.
    pub(super) fn wait(&self) {
        let mut guard = self.m.lock().unwrap();
        while !*guard {
            guard = self.v.wait(guard).unwrap();
        }
    }
}

impl Latch for LockLatch {
    #[inline]
    unsafe fn set(this: *const Self) {
        let mut guard = (*this).m.lock().unwrap();
        *guard = true;
        (*this).v.notify_all();
    }
}

/// Once latches are used to implement one-time blocking, primarily
/// for the termination flag of the threads in the pool.
///
/// Note: like a `SpinLatch`, once-latches are always associated with
/// some registry that is probing them, which must be tickled when
/// they are set. *Unlike* a `SpinLatch`, they don't themselves hold a
/// reference to that registry. This is because in some cases the
/// registry owns the once-latch, and that would create a cycle. So a
/// `OnceLatch` must be given a reference to its owning registry when
/// it is set. For this reason, it does not implement the `Latch`
/// trait (but it doesn't have to, as it is not used in those generic
/// contexts).
#[derive(Debug)]
pub(super) struct OnceLatch {
    core_latch: CoreLatch,
}

impl OnceLatch {
    #[inline]
    pub(super) fn new() -> OnceLatch {
        Self {
            core_latch: CoreLatch::new(),
        }
    }

    /// Set the latch, then tickle the specific worker thread,
    /// which should be the one that owns this latch.
    #[inline]
    pub(super) unsafe fn set_and_tickle_one(
        this: *const Self,
        registry: &Registry,
        target_worker_index: usize,
    ) {
        if CoreLatch::set(&(*this).core_latch) {
            registry.notify_worker_latch_is_set(target_worker_index);
        }
    }
}

impl AsCoreLatch for OnceLatch {
    #[inline]
    fn as_core_latch(&self) -> &CoreLatch {
        &self.core_latch
    }
}

/// Counting latches are used to implement scopes. They track a
/// counter. Unlike other latches, calling `set()` does not
/// necessarily make the latch be considered `set()`; instead, it just
/// decrements the counter. The latch is only "set" (in the sense that
/// `probe()` returns true) once the counter reaches zero.
#[derive(Debug)]
pub(super) struct CountLatch {
    counter: AtomicUsize,
    kind: CountLatchKind,
}

enum CountLatchKind {
    /// A latch for scopes created on a rayon thread which will participate in work
    /// stealing while it waits for completion. This thread is not necessarily part
    /// of the same registry as the scope itself!
    Stealing {
        latch: CoreLatch,
        /// If a worker thread in registry A calls `in_place_scope` on a ThreadPool
        /// with registry B, when a job completes in a thread of registry B, we may
        /// need to call `notify_worker_latch_is_set()` to wake the thread in registry A.
        /// That means we need a reference to registry A (since at that point we will
        /// only have a reference to registry B), so we stash it here.
        registry: Arc<Registry>,
        /// The index of the worker to wake in `registry`
        worker_index: usize,
    },

    /// A latch for scopes created on a non-rayon thread which will block to wait.
    Blocking { latch: LockLatch },
}

impl std::fmt::Debug for CountLatchKind {
    fn fmt(&self, f: &mut std::fmt::Formatter<'_>) -> std::fmt::Result {
        match self {
            CountLatchKind::Stealing { latch, .. } => {
                f.debug_tuple("Stealing").field(latch).finish()
            }
            CountLatchKind::Blocking { latch, .. } => {
                f.debug_tuple("Blocking").field(latch).finish()
            }
        }
    }
}

impl CountLatch {
    pub(super) fn new(owner: Option<&WorkerThread>) -> Self {
        Self::with_count(1, owner)
    }

    pub(super) fn with_count(count: usize, owner: Option<&WorkerThread>) -> Self {
        Self {
            counter: AtomicUsize::new(count),
            kind: match owner {
                Some(owner) => CountLatchKind::Stealing {
                    latch: CoreLatch::new(),
                    registry: Arc::clone(owner.registry()),
                    worker_index: owner.index(),
                },
                None => CountLatchKind::Blocking {
                    latch: LockLatch::new(),
                },
            },
        }
    }

    #[inline]
    pub(super) fn increment(&self) {
        let old_counter = self.counter.fetch_add(1, Ordering::Relaxed);
        debug_assert!(old_counter != 0);
    }

    pub(super) fn wait(&self, owner: Option<&WorkerThread>) {
        match &self.kind {
            CountLatchKind::Stealing {
                latch,
                registry,
                worker_index,
            } => unsafe {
                let owner = owner.expect("owner thread");
                debug_assert_eq!(registry.id(), owner.registry().id());
                debug_assert_eq!(*worker_index, owner.index());
                owner.wait_until(latch);
            },
            CountLatchKind::Blocking { latch } => latch.wait(),
        }
    }
}

impl Latch for CountLatch {
    #[inline]
    unsafe fn set(this: *const Self) {
        if (*this).counter.fetch_sub(1, Ordering::SeqCst) == 1 {
            // NOTE: Once we call `set` on the internal `latch`,
            // the target may proceed and invalidate `this`!
            match (*this).kind {
                CountLatchKind::Stealing {
                    ref latch,
                    ref registry,
                    worker_index,
                } => {
                    let registry = Arc::clone(registry);
                    if CoreLatch::set(latch) {
                        registry.notify_worker_latch_is_set(worker_index);
                    }
                }
                CountLatchKind::Blocking { ref latch } => LockLatch::set(latch),
            }
        }
    }
}

/// `&L` without any implication of `dereferenceable` for `Latch::set`
pub(super) struct LatchRef<'a, L> {
    inner: *const L,
    marker: PhantomData<&'a L>,
}

impl<L> LatchRef<'_, L> {
    pub(super) fn new(inner: &L) -> LatchRef<'_, L> {
        LatchRef {
            inner,
            marker: PhantomData,
        }
    }
}

unsafe impl<L: Sync> Sync for LatchRef<'_, L> {}

impl<L> Deref for LatchRef<'_, L> {
    type Target = L;

    fn deref(&self) -> &L {
        // SAFETY: if we have &self, the inner latch is still alive
        unsafe { &*self.inner }
    }
}

impl<L: Latch> Latch for LatchRef<'_, L> {
    #[inline]
    unsafe fn set(this: *const Self) {
        L::set((*this).inner);
    }
}
