use crate::unwind;
use crate::ThreadPoolBuilder;
use crate::{scope, scope_fifo, Scope, ScopeFifo};
use rand::{Rng, SeedableRng};
use rand_xorshift::XorShiftRng;
use std::iter::once;
use std::sync::atomic::{AtomicUsize, Ordering};
use std::sync::{Barrier, Mutex};
use std::vec;

#[test]
fn scope_empty() {
    scope(|_| {});
}

#[test]
fn scope_result() {
    let x = scope(|_| 22);
    assert_eq!(x, 22);
}

#[test]
fn scope_two() {
    let counter = &AtomicUsize::new(0);
    scope(|s| {
        s.spawn(move |_| {
            counter.fetch_add(1, Ordering::SeqCst);
        });
        s.spawn(move |_| {
            counter.fetch_add(10, Ordering::SeqCst);
        });
    });

    let v = counter.load(Ordering::SeqCst);
    assert_eq!(v, 11);
}

#[test]
fn scope_divide_and_conquer() {
    let counter_p = &AtomicUsize::new(0);
    scope(|s| s.spawn(move |s| divide_and_conquer(s, counter_p, 1024)));

    let counter_s = &AtomicUsize::new(0);
    divide_and_conquer_seq(counter_s, 1024);

    let p = counter_p.load(Ordering::SeqCst);
    let s = counter_s.load(Ordering::SeqCst);
    assert_eq!(p, s);
}

fn divide_and_conquer<'scope>(scope: &Scope<'scope>, counter: &'scope AtomicUsize, size: usize) {
    if size > 1 {
        scope.spawn(move |scope| divide_and_conquer(scope, counter, size / 2));
        scope.spawn(move |scope| divide_and_conquer(scope, counter, size / 2));
    } else {
        // count the leaves
        counter.fetch_add(1, Ordering::SeqCst);
    }
}

fn divide_and_conquer_seq(counter: &AtomicUsize, size: usize) {
    if size > 1 {
        divide_and_conquer_seq(counter, size / 2);
        divide_and_conquer_seq(counter, size / 2);
    } else {
        // count the leaves
        counter.fetch_add(1, Ordering::SeqCst);
    }
}

struct Tree<T: Send> {
    value: T,
    children: Vec<Tree<T>>,
}

impl<T: Send> Tree<T> {
    fn iter(&self) -> vec::IntoIter<&T> {
        once(&self.value)
            .chain(self.children.iter().flat_map(Tree::iter))
            .collect::<Vec<_>>() // seems like it shouldn't be needed... but prevents overflow
            .into_iter()
    }

    fn update<OP>(&mut self, op: OP)
    where
        OP: Fn(&mut T) + Sync,
        T: Send,
    {
        scope(|s| self.update_in_scope(&op, s));
    }

    fn update_in_scope<'scope, OP>(&'scope mut self, op: &'scope OP, scope: &Scope<'scope>)
    where
        OP: Fn(&mut T) + Sync,
    {
        let Tree {
            ref mut value,
            ref mut children,
        } = *self;
        scope.spawn(move |scope| {
            for child in children {
                scope.spawn(move |scope| child.update_in_scope(op, scope));
            }
        });

        op(value);
    }
}

fn random_tree(depth: usize) -> Tree<u32> {
    assert!(depth > 0);
    let mut seed = <XorShiftRng as SeedableRng>::Seed::default();
    (0..).zip(seed.as_mut()).for_each(|(i, x)| *x = i);
    let mut rng = XorShiftRng::from_seed(seed);
    random_tree1(depth, &mut rng)
}

fn random_tree1(depth: usize, rng: &mut XorShiftRng) -> Tree<u32> {
    let children = if depth == 0 {
        vec![]
    } else {
        (0..rng.random_range(0..4)) // somewhere between 0 and 3 children at each level
            .map(|_| random_tree1(depth - 1, rng))
            .collect()
    };

    Tree {
        value: rng.random_range(0..1_000_000),
        children,
    }
}

#[test]
fn update_tree() {
    let mut tree: Tree<u32> = random_tree(10);
    let values: Vec<u32> = tree.iter().cloned().collect();
    tree.update(|v| *v += 1);
    let new_values: Vec<u32> = tree.iter().cloned().collect();
    assert_eq!(values.len(), new_values.len());
    for (&i, &j) in values.iter().zip(&new_values) {
        assert_eq!(i + 1, j);
    }
}

/// Check that if you have a chain of scoped tasks where T0 spawns T1
/// spawns T2 and so forth down to Tn, the stack space should not grow
/// linearly with N. We test this by some unsafe hackery and
/// permitting an approx 10% change with a 10x input change.
#[test]
#[cfg_attr(any(target_os = "emscripten", target_family = "wasm"), ignore)]
fn linear_stack_growth() {
    let builder = ThreadPoolBuilder::new().num_threads(1);
    let pool = builder.build().unwrap();
    pool.install(|| {
        let mut max_diff = Mutex::new(0);
        let bottom_of_stack = 0;
        scope(|s| the_final_countdown(s, &bottom_of_stack, &max_diff, 5));
        let diff_when_5 = *max_diff.get_mut().unwrap() as f64;

        scope(|s| the_final_countdown(s, &bottom_of_stack, &max_diff, 500));
        let diff_when_500 = *max_diff.get_mut().unwrap() as f64;

        let ratio = diff_when_5 / diff_when_500;
        assert!(
            ratio > 0.9 && ratio < 1.1,
            "stack usage ratio out of bounds: {ratio}"
        );
    });
}

fn the_final_countdown<'scope>(
    s: &Scope<'scope>,
    bottom_of_stack: &'scope i32,
    max: &'scope Mutex<usize>,
    n: usize,
) {
    let top_of_stack = 0;
    let p = bottom_of_stack as *const i32 as usize;
    let q = &top_of_stack as *const i32 as usize;
    let diff = p.abs_diff(q);

    let mut data = max.lock().unwrap();
    *data = Ord::max(diff, *data);

    if n > 0 {
        s.spawn(move |s| the_final_countdown(s, bottom_of_stack, max, n - 1));
    }
}

#[test]
#[should_panic(expected = "Hello, world!")]
fn panic_propagate_scope() {
    scope(|_| panic!("Hello, world!"));
}

#[test]
#[should_panic(expected = "Hello, world!")]
fn panic_propagate_spawn() {
    scope(|s| s.spawn(|_| panic!("Hello, world!")));
}

#[test]
#[should_panic(expected = "Hello, world!")]
fn panic_propagate_nested_spawn() {
    scope(|s| s.spawn(|s| s.spawn(|s| s.spawn(|_| panic!("Hello, world!")))));
}

#[test]
#[should_panic(expected = "Hello, world!")]
fn panic_propagate_nested_scope_spawn() {
    scope(|s| s.spawn(|_| scope(|s| s.spawn(|_| panic!("Hello, world!")))));
}

#[test]
#[cfg_attr(not(panic = "unwind"), ignore)]
fn panic_propagate_still_execute_1() {
    let mut x = false;
    let result = unwind::halt_unwinding(|| {
        scope(|s| {
            s.spawn(|_| panic!("Hello, world!")); // job A
            s.spawn(|_| x = true); // job B, should still execute even though A panics
        });
    });
    match result {
        Ok(_) => panic!("failed to propagate panic"),
        Err(_) => assert!(x, "job b failed to execute"),
    }
}

#[test]
#[cfg_attr(not(panic = "unwind"), ignore)]
fn panic_propagate_still_execute_2() {
    let mut x = false;
    let result = unwind::halt_unwinding(|| {
        scope(|s| {
            s.spawn(|_| x = true); // job B, should still execute even though A panics
            s.spawn(|_| panic!("Hello, world!")); // job A
        });
    });
    match result {
        Ok(_) => panic!("failed to propagate panic"),
        Err(_) => assert!(x, "job b failed to execute"),
    }
}

#[test]
#[cfg_attr(not(panic = "unwind"), ignore)]
fn panic_propagate_still_execute_3() {
    let mut x = false;
    let result = unwind::halt_unwinding(|| {
        scope(|s| {
            s.spawn(|_| x = true); // spawned job should still execute despite later panic
            panic!("Hello, world!");
        });
    });
    match result {
        Ok(_) => panic!("failed to propagate panic"),
        Err(_) => assert!(x, "panic after spawn, spawn failed to execute"),
    }
}

#[test]
#[cfg_attr(not(panic = "unwind"), ignore)]
fn panic_propagate_still_execute_4() {
    let mut x = false;
    let result = unwind::halt_unwinding(|| {
        scope(|s| {
            s.spawn(|_| panic!("Hello, world!"));
            x = true;
        });
    });
    match result {
        Ok(_) => panic!("failed to propagate panic"),
        Err(_) => assert!(x, "panic in spawn tainted scope"),
    }
}

macro_rules! test_order {
    ($scope:ident => $spawn:ident) => {{
        let builder = ThreadPoolBuilder::new().num_threads(1);
        let pool = builder.build().unwrap();
        pool.install(|| {
            let vec = Mutex::new(vec![]);
            $scope(|scope| {
                let vec = &vec;
                for i in 0..10 {
                    scope.$spawn(move |scope| {
                        for j in 0..10 {
                            scope.$spawn(move |_| {
                                vec.lock().unwrap().push(i * 10 + j);
                            });
                        }
                    });
                }
            });
            vec.into_inner().unwrap()
        })
    }};
}

#[test]
#[cfg_attr(any(target_os = "emscripten", target_family = "wasm"), ignore)]
fn lifo_order() {
    // In the absence of stealing, `scope()` runs its `spawn()` jobs in LIFO order.
    let vec = test_order!(scope => spawn);
    let expected: Vec<i32> = (0..100).rev().collect(); // LIFO -> reversed
    assert_eq!(vec, expected);
}

#[test]
#[cfg_attr(any(target_os = "emscripten", target_family = "wasm"), ignore)]
fn fifo_order() {
    // In the absence of stealing, `scope_fifo()` runs its `spawn_fifo()` jobs in FIFO order.
    let vec = test_order!(scope_fifo => spawn_fifo);
    let expected: Vec<i32> = (0..100).collect(); // FIFO -> natural order
    assert_eq!(vec, expected);
}

macro_rules! test_nested_order {
    ($outer_scope:ident => $outer_spawn:ident,
     $inner_scope:ident => $inner_spawn:ident) => {{
        let builder = ThreadPoolBuilder::new().num_threads(1);
        let pool = builder.build().unwrap();
        pool.install(|| {
            let vec = Mutex::new(vec![]);
            $outer_scope(|scope| {
                let vec = &vec;
                for i in 0..10 {
                    scope.$outer_spawn(move |_| {
                        $inner_scope(|scope| {
                            for j in 0..10 {
                                scope.$inner_spawn(move |_| {
                                    vec.lock().unwrap().push(i * 10 + j);
                                });
                            }
                        });
                    });
                }
            });
            vec.into_inner().unwrap()
        })
    }};
}

#[test]
#[cfg_attr(any(target_os = "emscripten", target_family = "wasm"), ignore)]
fn nested_lifo_order() {
    // In the absence of stealing, `scope()` runs its `spawn()` jobs in LIFO order.
    let vec = test_nested_order!(scope => spawn, scope => spawn);
    let expected: Vec<i32> = (0..100).rev().collect(); // LIFO -> reversed
    assert_eq!(vec, expected);
}

#[test]
#[cfg_attr(any(target_os = "emscripten", target_family = "wasm"), ignore)]
fn nested_fifo_order() {
    // In the absence of stealing, `scope_fifo()` runs its `spawn_fifo()` jobs in FIFO order.
    let vec = test_nested_order!(scope_fifo => spawn_fifo, scope_fifo => spawn_fifo);
    let expected: Vec<i32> = (0..100).collect(); // FIFO -> natural order
    assert_eq!(vec, expected);
}

#[test]
#[cfg_attr(any(target_os = "emscripten", target_family = "wasm"), ignore)]
fn nested_lifo_fifo_order() {
    // LIFO on the outside, FIFO on the inside
    let vec = test_nested_order!(scope => spawn, scope_fifo => spawn_fifo);
    let expected: Vec<i32> = (0..10)
        .rev()
        .flat_map(|i| (0..10).map(move |j| i * 10 + j))
        .collect();
    assert_eq!(vec, expected);
}

#[test]
#[cfg_attr(any(target_os = "emscripten", target_family = "wasm"), ignore)]
fn nested_fifo_lifo_order() {
    // FIFO on the outside, LIFO on the inside
    let vec = test_nested_order!(scope_fifo => spawn_fifo, scope => spawn);
    let expected: Vec<i32> = (0..10)
        .flat_map(|i| (0..10).rev().map(move |j| i * 10 + j))
        .collect();
    assert_eq!(vec, expected);
}

macro_rules! spawn_push {
    ($scope:ident . $spawn:ident, $vec:ident, $i:expr) => {{
        $scope.$spawn(move |_| $vec.lock().unwrap().push($i));
    }};
}

/// Test spawns pushing a series of numbers, interleaved
/// such that negative values are using an inner scope.
macro_rules! test_mixed_order {
    ($outer_scope:ident => $outer_spawn:ident,
     $inner_scope:ident => $inner_spawn:ident) => {{
        let builder = ThreadPoolBuilder::new().num_threads(1);
        let pool = builder.build().unwrap();
        pool.install(|| {
            let vec = Mutex::new(vec![]);
            $outer_scope(|outer_scope| {
                let vec = &vec;
                spawn_push!(outer_scope.$outer_spawn, vec, 0);
                $inner_scope(|inner_scope| {
                    spawn_push!(inner_scope.$inner_spawn, vec, -1);
                    spawn_push!(outer_scope.$outer_spawn, vec, 1);
                    spawn_push!(inner_scope.$inner_spawn, vec, -2);
                    spawn_push!(outer_scope.$outer_spawn, vec, 2);
                    spawn_push!(inner_scope.$inner_spawn, vec, -3);
                });
                spawn_push!(outer_scope.$outer_spawn, vec, 3);
            });
            vec.into_inner().unwrap()
        })
    }};
}

#[test]
#[cfg_attr(any(target_os = "emscripten", target_family = "wasm"), ignore)]
fn mixed_lifo_order() {
    // NB: the end of the inner scope makes us execute some of the outer scope
    // before they've all been spawned, so they're not perfectly LIFO.
    let vec = test_mixed_order!(scope => spawn, scope => spawn);
    let expected = vec![-3, 2, -2, 1, -1, 3, 0];
    assert_eq!(vec, expected);
}

#[test]
#[cfg_attr(any(target_os = "emscripten", target_family = "wasm"), ignore)]
fn mixed_fifo_order() {
    let vec = test_mixed_order!(scope_fifo => spawn_fifo, scope_fifo => spawn_fifo);
    let expected = vec![-1, 0, -2, 1, -3, 2, 3];
    assert_eq!(vec, expected);
}

#[test]
#[cfg_attr(any(target_os = "emscripten", target_family = "wasm"), ignore)]
fn mixed_lifo_fifo_order() {
    // NB: the end of the inner scope makes us execute some of the outer scope
    // before they've all been spawned, so they're not perfectly LIFO.
    let vec = test_mixed_order!(scope => spawn, scope_fifo => spawn_fifo);
    let expected = vec![-1, 2, -2, 1, -3, 3, 0];
    assert_eq!(vec, expected);
}

#[test]
#[cfg_attr(any(target_os = "emscripten", target_family = "wasm"), ignore)]
fn mixed_fifo_lifo_order() {
    let vec = test_mixed_order!(scope_fifo => spawn_fifo, scope => spawn);
    let expected = vec![-3, 0, -2, 1, -1, 2, 3];
    assert_eq!(vec, expected);
}

#[test]
fn static_scope() {
    static COUNTER: AtomicUsize = AtomicUsize::new(0);

    let mut range = 0..100;
    let sum = range.clone().sum();
    let iter = &mut range;

    COUNTER.store(0, Ordering::Relaxed);
    scope(|s: &Scope<'static>| {
        // While we're allowed the locally borrowed iterator,
        // the spawns must be static.
        for i in iter {
            s.spawn(move |_| {
                COUNTER.fetch_add(i, Ordering::Relaxed);
            });
        }
    });

    assert_eq!(COUNTER.load(Ordering::Relaxed), sum);
}

#[test]
fn static_scope_fifo() {
    static COUNTER: AtomicUsize = AtomicUsize::new(0);

    let mut range = 0..100;
    let sum = range.clone().sum();
    let iter = &mut range;

    COUNTER.store(0, Ordering::Relaxed);
    scope_fifo(|s: &ScopeFifo<'static>| {
        // While we're allowed the locally borrowed iterator,
        // the spawns must be static.
        for i in iter {
            s.spawn_fifo(move |_| {
                COUNTER.fetch_add(i, Ordering::Relaxed);
            });
        }
    });

    assert_eq!(COUNTER.load(Ordering::Relaxed), sum);
}

#[test]
fn mixed_lifetime_scope() {
    fn increment<'slice, 'counter>(counters: &'slice [&'counter AtomicUsize]) {
        scope(move |s: &Scope<'counter>| {
            // We can borrow 'slice here, but the spawns can only borrow 'counter.
            for &c in counters {
                s.spawn(move |_| {
                    c.fetch_add(1, Ordering::Relaxed);
                });
            }
        });
    }

    let counter = AtomicUsize::new(0);
    increment(&[&counter; 100]);
    assert_eq!(counter.into_inner(), 100);
}

#[test]
fn mixed_lifetime_scope_fifo() {
    fn increment<'slice, 'counter>(counters: &'slice [&'counter AtomicUsize]) {
        scope_fifo(move |s: &ScopeFifo<'counter>| {
            // We can borrow 'slice here, but the spawns can only borrow 'counter.
            for &c in counters {
                s.spawn_fifo(move |_| {
                    c.fetch_add(1, Ordering::Relaxed);
                });
            }
        });
    }

    let counter = AtomicUsize::new(0);
    increment(&[&counter; 100]);
    assert_eq!(counter.into_inner(), 100);
}

#[test]
fn scope_spawn_broadcast() {
    let sum = AtomicUsize::new(0);
    let n = scope(|s| {
        s.spawn_broadcast(|_, ctx| {
            sum.fetch_add(ctx.index(), Ordering::Relaxed);
        });
        crate::current_num_threads()
    });
    assert_eq!(sum.into_inner(), n * (n - 1) / 2);
}

#[test]
fn scope_fifo_spawn_broadcast() {
    let sum = AtomicUsize::new(0);
    let n = scope_fifo(|s| {
        s.spawn_broadcast(|_, ctx| {
            sum.fetch_add(ctx.index(), Ordering::Relaxed);
        });
        crate::current_num_threads()
    });
    assert_eq!(sum.into_inner(), n * (n - 1) / 2);
}

#[test]
fn scope_spawn_broadcast_nested() {
    let sum = AtomicUsize::new(0);
    let n = scope(|s| {
        s.spawn_broadcast(|s, _| {
            s.spawn_broadcast(|_, ctx| {
                sum.fetch_add(ctx.index(), Ordering::Relaxed);
            });
        });
        crate::current_num_threads()
    });
    assert_eq!(sum.into_inner(), n * n * (n - 1) / 2);
}

#[test]
#[cfg_attr(any(target_os = "emscripten", target_family = "wasm"), ignore)]
fn scope_spawn_broadcast_barrier() {
    let barrier = Barrier::new(8);
    let pool = ThreadPoolBuilder::new().num_threads(7).build().unwrap();
    pool.in_place_scope(|s| {
        s.spawn_broadcast(|_, _| {
            barrier.wait();
        });
        barrier.wait();
    });
}

#[test]
#[cfg_attr(any(target_os = "emscripten", target_family = "wasm"), ignore)]
fn scope_spawn_broadcast_panic_one() {
    let count = AtomicUsize::new(0);
    let pool = ThreadPoolBuilder::new().num_threads(7).build().unwrap();
    let result = crate::unwind::halt_unwinding(|| {
        pool.scope(|s| {
            s.spawn_broadcast(|_, ctx| {
                count.fetch_add(1, Ordering::Relaxed);
                if ctx.index() == 3 {
                    panic!("Hello, world!");
                }
            });
        });
    });
    assert_eq!(count.into_inner(), 7);
    assert!(result.is_err(), "broadcast panic should propagate!");
}

#[test]
#[cfg_attr(any(target_os = "emscripten", target_family = "wasm"), ignore)]
fn scope_spawn_broadcast_panic_many() {
    let count = AtomicUsize::new(0);
    let pool = ThreadPoolBuilder::new().num_threads(7).build().unwrap();
    let result = crate::unwind::halt_unwinding(|| {
        pool.scope(|s| {
            s.spawn_broadcast(|_, ctx| {
                count.fetch_add(1, Ordering::Relaxed);
                if ctx.index() % 2 == 0 {
                    panic!("Hello, world!");
                }
            });
        });
    });
    assert_eq!(count.into_inner(), 7);
    assert!(result.is_err(), "broadcast panic should propagate!");
}
