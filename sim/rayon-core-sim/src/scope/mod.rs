//! Methods for custom fork-join scopes, created by the [`scope()`]
//! and [`in_place_scope()`] functions. These are a more flexible alternative to [`join()`].
//!
//! [`join()`]: crate::join()

use crate::broadcast::BroadcastContext;
use crate::job::{ArcJob, HeapJob, JobFifo, JobRef};
use crate::latch::{CountLatch, Latch};
use crate::registry::{global_registry, in_worker, Registry, WorkerThread};
use crate::unwind;
use std::any::Any;
use std::fmt;
use std::marker::PhantomData;
use std::mem::ManuallyDrop;
use std::ptr;
use std::sync::atomic::{AtomicPtr, Ordering};
use std::sync::Arc;

#[cfg(test)]
mod test;

/// Represents a fork-join scope which can be used to spawn any number of tasks.
/// See [`scope()`] for more information.
pub struct Scope<'scope> {
    base: ScopeBase<'scope>,
}

/// Represents a fork-join scope which can be used to spawn any number of tasks.
/// Those spawned from the same thread are prioritized in relative FIFO order.
/// See [`scope_fifo()`] for more information.
pub struct ScopeFifo<'scope> {
    base: ScopeBase<'scope>,
    fifos: Vec<JobFifo>,
}

struct ScopeBase<'scope> {
    /// thread registry where `scope()` was executed or where `in_place_scope()`
    /// should spawn jobs.
    registry: Arc<Registry>,

    /// if some job panicked, the error is stored here; it will be
    /// propagated to the one who created the scope
    panic: AtomicPtr<Box<dyn Any + Send + 'static>>,

    /// latch to track job counts
    job_completed_latch: CountLatch,

    /// You can think of a scope as containing a list of closures to execute,
    /// all of which outlive `'scope`.  They're not actually required to be
    /// `Sync`, but it's still safe to let the `Scope` implement `Sync` because
    /// the closures are only *moved* across threads to be executed.
    #[allow(clippy::type_complexity)]
    marker: PhantomData<Box<dyn FnOnce(&Scope<'scope>) + Send + Sync + 'scope>>,
}

/// Creates a "fork-join" scope `s` and invokes the closure with a
/// reference to `s`. This closure can then spawn asynchronous tasks
/// into `s`. Those tasks may run asynchronously with respect to the
/// closure; they may themselves spawn additional tasks into `s`. When
/// the closure returns, it will block until all tasks that have been
/// spawned into `s` complete.
///
/// `scope()` is a more flexible building block compared to `join()`,
/// since a loop can be used to spawn any number of tasks without
/// recursing. However, that flexibility comes at a performance price:
/// tasks spawned using `scope()` must be allocated onto the heap,
/// whereas `join()` can make exclusive use of the stack. **Prefer
/// `join()` (or, even better, parallel iterators) where possible.**
///
/// # Example
///
/// The Rayon `join()` function launches two closures and waits for them
/// to stop. One could implement `join()` using a scope like so, although
/// it would be less efficient than the real implementation:
///
/// ```rust
/// # use rayon_core as rayon;
/// pub fn join<A,B,RA,RB>(oper_a: A, oper_b: B) -> (RA, RB)
///     where A: FnOnce() -> RA + Send,
///           B: FnOnce() -> RB + Send,
///           RA: Send,
///           RB: Send,
/// {
///     let mut result_a: Option<RA> = None;
///     let mut result_b: Option<RB> = None;
///     rayon::scope(|s| {
///         s.spawn(|_| result_a = Some(oper_a()));
///         s.spawn(|_| result_b = Some(oper_b()));
///     });
///     (result_a.unwrap(), result_b.unwrap())
/// }
/// ```
///
/// # A note on threading
///
/// The closure given to `scope()` executes in the Rayon thread pool,
/// as do those given to `spawn()`. This means that you can't access
/// thread-local variables (well, you can, but they may have
/// unexpected values).
///
/// # Task execution
///
/// Task execution potentially starts as soon as `spawn()` is called.
/// The task will end sometime before `scope()` returns. Note that the
/// *closure* given to scope may return much earlier. In general
/// the lifetime of a scope created like `scope(body)` goes something like this:
///
/// - Scope begins when `scope(body)` is called
/// - Scope body `body()` is invoked
///     - Scope tasks may be spawned
/// - Scope body returns
/// - Scope tasks execute, possibly spawning more tasks
/// - Once all tasks are done, scope ends and `scope()` returns
///
/// To see how and when tasks are joined, consider this example:
///
/// ```rust
/// # use rayon_core as rayon;
/// // point start
/// rayon::scope(|s| {
///     s.spawn(|s| { // task s.1
///         s.spawn(|s| { // task s.1.1
///             rayon::scope(|t| {
///                 t.spawn(|_| ()); // task t.1
///                 t.spawn(|_| ()); // task t.2
///             });
///         });
///     });
///     s.spawn(|s| { // task s.2
///     });
///     // point mid
/// });
/// // point end
/// ```
///
/// The various tasks that are run will execute roughly like so:
///
/// ```notrust
/// | (start)
/// |
/// | (scope `s` created)
/// +-----------------------------------------------+ (task s.2)
/// +-------+ (task s.1)                            |
/// |       |                                       |
/// |       +---+ (task s.1.1)                      |
/// |       |   |                                   |
/// |       |   | (scope `t` created)               |
/// |       |   +----------------+ (task t.2)       |
/// |       |   +---+ (task t.1) |                  |
/// | (mid) |   |   |            |                  |
/// :       |   + <-+------------+ (scope `t` ends) |
/// :       |   |                                   |
/// |<------+---+-----------------------------------+ (scope `s` ends)
/// |
/// | (end)
/// ```
///
/// The point here is that everything spawned into scope `s` will
/// terminate (at latest) at the same point -- right before the
/// original call to `rayon::scope` returns. This includes new
/// subtasks created by other subtasks (e.g., task `s.1.1`). If a new
/// scope is created (such as `t`), the things spawned into that scope
/// will be joined before that scope returns, which in turn occurs
/// before the creating task (task `s.1.1` in this case) finishes.
///
/// There is no guaranteed order of execution for spawns in a scope,
/// given that other threads may steal tasks at any time. However, they
/// are generally prioritized in a LIFO order on the thread from which
/// they were spawned. So in this example, absent any stealing, we can
/// expect `s.2` to execute before `s.1`, and `t.2` before `t.1`. Other
/// threads always steal from the other end of the deque, like FIFO
/// order.  The idea is that "recent" tasks are most likely to be fresh
/// in the local CPU's cache, while other threads can steal older
/// "stale" tasks.  For an alternate approach, consider
/// [`scope_fifo()`] instead.
///
/// # Accessing stack data
///
/// In general, spawned tasks may access stack data in place that
/// outlives the scope itself. Other data must be fully owned by the
/// spawned task.
///
/// ```rust
/// # use rayon_core as rayon;
/// let ok: Vec<i32> = vec![1, 2, 3];
/// rayon::scope(|s| {
///     let bad: Vec<i32> = vec![4, 5, 6];
///     s.spawn(|_| {
///         // We can access `ok` because outlives the scope `s`.
///         println!("ok: {:?}", ok);
///
///         // If we just try to use `bad` here, the closure will borrow `bad`
///         // (because we are just printing it out, and that only requires a
///         // borrow), which will result in a compilation error. Read on
///         // for options.
///         // println!("bad: {:?}", bad);
///    });
/// });
/// ```
///
/// As the comments example above suggest, to reference `bad` we must
/// take ownership of it. One way to do this is to detach the closure
/// from the surrounding stack frame, using the `move` keyword. This
/// will cause it to take ownership of *all* the variables it touches,
/// in this case including both `ok` *and* `bad`:
///
/// ```rust
/// # use rayon_core as rayon;
/// let ok: Vec<i32> = vec![1, 2, 3];
/// rayon::scope(|s| {
///     let bad: Vec<i32> = vec![4, 5, 6];
///     s.spawn(move |_| {
///         println!("ok: {:?}", ok);
///         println!("bad: {:?}", bad);
///     });
///
///     // That closure is fine, but now we can't use `ok` anywhere else,
///     // since it is owned by the previous task:
///     // s.spawn(|_| println!("ok: {:?}", ok));
/// });
/// ```
///
/// While this works, it could be a problem if we want to use `ok` elsewhere.
/// There are two choices. We can keep the closure as a `move` closure, but
/// instead of referencing the variable `ok`, we create a shadowed variable that
/// is a borrow of `ok` and capture *that*:
///
/// ```rust
/// # use rayon_core as rayon;
/// let ok: Vec<i32> = vec![1, 2, 3];
/// rayon::scope(|s| {
///     let bad: Vec<i32> = vec![4, 5, 6];
///     let ok: &Vec<i32> = &ok; // shadow the original `ok`
///     s.spawn(move |_| {
///         println!("ok: {:?}", ok); // captures the shadowed version
///         println!("bad: {:?}", bad);
///     });
///
///     // Now we too can use the shadowed `ok`, since `&Vec<i32>` references
///     // can be shared freely. Note that we need a `move` closure here though,
///     // because otherwise we'd be trying to borrow the shadowed `ok`,
///     // and that doesn't outlive `scope`.
///     s.spawn(move |_| println!("ok: {:?}", ok));
/// });
/// ```
///
/// Another option is not to use the `move` keyword but instead to take ownership
/// of individual variables:
///
/// ```rust
/// # use rayon_core as rayon;
/// let ok: Vec<i32> = vec![1, 2, 3];
/// rayon::scope(|s| {
///     let bad: Vec<i32> = vec![4, 5, 6];
///     s.spawn(|_| {
///         // Transfer ownership of `bad` into a local variable (also named `bad`).
///         // This will force the closure to take ownership of `bad` from the environment.
///         let bad = bad;
///         println!("ok: {:?}", ok); // `ok` is only borrowed.
///         println!("bad: {:?}", bad); // refers to our local variable, above.
///     });
///
///     s.spawn(|_| println!("ok: {:?}", ok)); // we too can borrow `ok`
/// });
/// ```
///
/// # Panics
///
/// If a panic occurs, either in the closure given to `scope()` or in
/// any of the spawned jobs, that panic will be propagated and the
/// call to `scope()` will panic. If multiple panics occurs, it is
/// non-deterministic which of their panic values will propagate.
/// Regardless, once a task is spawned using `scope.spawn()`, it will
/// execute, even if the spawning task should later panic. `scope()`
/// returns once all spawned jobs have completed, and any panics are
/// propagated at that point.
pub fn scope<'scope, OP, R>(op: OP) -> R
where
    OP: FnOnce(&Scope<'scope>) -> R + Send,
    R: Send,
{
    in_worker(|owner_thread, _| {
        let scope = Scope::<'scope>::new(Some(owner_thread), None);
        scope.base.complete(Some(owner_thread), || op(&scope))
    })
}

/// Creates a "fork-join" scope `s` with FIFO order, and invokes the
/// closure with a reference to `s`. This closure can then spawn
/// asynchronous tasks into `s`. Those tasks may run asynchronously with
/// respect to the closure; they may themselves spawn additional tasks
/// into `s`. When the closure returns, it will block until all tasks
/// that have been spawned into `s` complete.
///
/// # Task execution
///
/// Tasks in a `scope_fifo()` run similarly to [`scope()`], but there's a
/// difference in the order of execution. Consider a similar example:
///
/// ```rust
/// # use rayon_core as rayon;
/// // point start
/// rayon::scope_fifo(|s| {
///     s.spawn_fifo(|s| { // task s.1
///         s.spawn_fifo(|s| { // task s.1.1
///             rayon::scope_fifo(|t| {
///                 t.spawn_fifo(|_| ()); // task t.1
///                 t.spawn_fifo(|_| ()); // task t.2
///             });
///         });
///     });
///     s.spawn_fifo(|s| { // task s.2
///     });
///     // point mid
/// });
/// // point end
/// ```
///
/// The various tasks that are run will execute roughly like so:
///
/// ```notrust
/// | (start)
/// |
/// | (FIFO scope `s` created)
/// +--------------------+ (task s.1)
/// +-------+ (task s.2) |
/// |       |            +---+ (task s.1.1)
/// |       |            |   |
/// |       |            |   | (FIFO scope `t` created)
/// |       |            |   +----------------+ (task t.1)
/// |       |            |   +---+ (task t.2) |
/// | (mid) |            |   |   |            |
/// :       |            |   + <-+------------+ (scope `t` ends)
/// :       |            |   |
/// |<------+------------+---+ (scope `s` ends)
/// |
/// | (end)
/// ```
///
/// Under `scope_fifo()`, the spawns are prioritized in a FIFO order on
/// the thread from which they were spawned, as opposed to `scope()`'s
/// LIFO.  So in this example, we can expect `s.1` to execute before
/// `s.2`, and `t.1` before `t.2`. Other threads also steal tasks in
/// FIFO order, as usual. Overall, this has roughly the same order as
/// the now-deprecated [`breadth_first`] option, except the effect is
/// isolated to a particular scope. If spawns are intermingled from any
/// combination of `scope()` and `scope_fifo()`, or from different
/// threads, their order is only specified with respect to spawns in the
/// same scope and thread.
///
/// For more details on this design, see Rayon [RFC #1].
///
/// [`breadth_first`]: crate::ThreadPoolBuilder::breadth_first
/// [RFC #1]: https://github.com/rayon-rs/rfcs/blob/main/accepted/rfc0001-scope-scheduling.md
///
/// # Panics
///
/// If a panic occurs, either in the closure given to `scope_fifo()` or
/// in any of the spawned jobs, that panic will be propagated and the
/// call to `scope_fifo()` will panic. If multiple panics occurs, it is
/// non-deterministic which of their panic values will propagate.
/// Regardless, once a task is spawned using `scope.spawn_fifo()`, it
/// will execute, even if the spawning task should later panic.
/// `scope_fifo()` returns once all spawned jobs have completed, and any
/// panics are propagated at that point.
pub fn scope_fifo<'scope, OP, R>(op: OP) -> R
where
    OP: FnOnce(&ScopeFifo<'scope>) -> R + Send,
    R: Send,
{
    in_worker(|owner_thread, _| {
        let scope = ScopeFifo::<'scope>::new(Some(owner_thread), None);
        scope.base.complete(Some(owner_thread), || op(&scope))
    })
}

/// Creates a "fork-join" scope `s` and invokes the closure with a
/// reference to `s`. This closure can then spawn asynchronous tasks
/// into `s`. Those tasks may run asynchronously with respect to the
/// closure; they may themselves spawn additional tasks into `s`. When
/// the closure returns, it will block until all tasks that have been
/// spawned into `s` complete.
///
/// This is just like `scope()` except the closure runs on the same thread
/// that calls `in_place_scope()`. Only work that it spawns runs in the
/// thread pool.
///
/// # Panics
///
/// If a panic occurs, either in the closure given to `in_place_scope()` or in
/// any of the spawned jobs, that panic will be propagated and the
/// call to `in_place_scope()` will panic. If multiple panics occurs, it is
/// non-deterministic which of their panic values will propagate.
/// Regardless, once a task is spawned using `scope.spawn()`, it will
/// execute, even if the spawning task should later panic. `in_place_scope()`
/// returns once all spawned jobs have completed, and any panics are
/// propagated at that point.
pub fn in_place_scope<'scope, OP, R>(op: OP) -> R
where
    OP: FnOnce(&Scope<'scope>) -> R,
{
    do_in_place_scope(None, op)
}

pub(crate) fn do_in_place_scope<'scope, OP, R>(registry: Option<&Arc<Registry>>, op: OP) -> R
where
    OP: FnOnce(&Scope<'scope>) -> R,
{
    let (thread, registry) = get_in_place_thread_registry(registry);
    let scope = Scope::<'scope>::new(thread, registry);
    scope.base.complete(thread, || op(&scope))
}

fn get_in_place_thread_registry(
    registry: Option<&Arc<Registry>>,
) -> (Option<&WorkerThread>, Option<&Arc<Registry>>) {
    let thread = unsafe { WorkerThread::current().as_ref() };
    if thread.is_none() && registry.is_none() {
        // A new global registry may use the current thread, especially on WebAssembly,
        // so we have to re-check our current status after it's built.
        let global = global_registry();
        (global.current_thread(), Some(global))
    } else {
        (thread, registry)
    }
}

/// Creates a "fork-join" scope `s` with FIFO order, and invokes the
/// closure with a reference to `s`. This closure can then spawn
/// asynchronous tasks into `s`. Those tasks may run asynchronously with
/// respect to the closure; they may themselves spawn additional tasks
/// into `s`. When the closure returns, it will block until all tasks
/// that have been spawned into `s` complete.
///
/// This is just like `scope_fifo()` except the closure runs on the same thread
/// that calls `in_place_scope_fifo()`. Only work that it spawns runs in the
/// thread pool.
///
/// # Panics
///
/// If a panic occurs, either in the closure given to `in_place_scope_fifo()` or in
/// any of the spawned jobs, that panic will be propagated and the
/// call to `in_place_scope_fifo()` will panic. If multiple panics occurs, it is
/// non-deterministic which of their panic values will propagate.
/// Regardless, once a task is spawned using `scope.spawn_fifo()`, it will
/// execute, even if the spawning task should later panic. `in_place_scope_fifo()`
/// returns once all spawned jobs have completed, and any panics are
/// propagated at that point.
pub fn in_place_scope_fifo<'scope, OP, R>(op: OP) -> R
where
    OP: FnOnce(&ScopeFifo<'scope>) -> R,
{
    do_in_place_scope_fifo(None, op)
}

pub(crate) fn do_in_place_scope_fifo<'scope, OP, R>(registry: Option<&Arc<Registry>>, op: OP) -> R
where
    OP: FnOnce(&ScopeFifo<'scope>) -> R,
{
    let (thread, registry) = get_in_place_thread_registry(registry);
    let scope = ScopeFifo::<'scope>::new(thread, registry);
    scope.base.complete(thread, || op(&scope))
}

impl<'scope> Scope<'scope> {
    fn new(owner: Option<&WorkerThread>, registry: Option<&Arc<Registry>>) -> Self {
        let base = ScopeBase::new(owner, registry);
        Scope { base }
    }

    /// Spawns a job into the fork-join scope `self`. This job will
    /// execute sometime before the fork-join scope completes.  The
    /// job is specified as a closure, and this closure receives its
    /// own reference to the scope `self` as argument. This can be
    /// used to inject new jobs into `self`.
    ///
    /// # Returns
    ///
    /// Nothing. The spawned closures cannot pass back values to the
    /// caller directly, though they can write to local variables on
    /// the stack (if those variables outlive the scope) or
    /// communicate through shared channels.
    ///
    /// (The intention is to eventually integrate with Rust futures to
    /// support spawns of functions that compute a value.)
    ///
    /// # Examples
    ///
    /// ```rust
    /// # use rayon_core as rayon;
    /// let mut value_a = None;
    /// let mut value_b = None;
    /// let mut value_c = None;
    /// rayon::scope(|s| {
    ///     s.spawn(|s1| {
    ///           // ^ this is the same scope as `s`; this handle `s1`
    ///           //   is intended for use by the spawned task,
    ///           //   since scope handles cannot cross thread boundaries.
    ///
    ///         value_a = Some(22);
    ///
    ///         // the scope `s` will not end until all these tasks are done
    ///         s1.spawn(|_| {
    ///             value_b = Some(44);
    ///         });
    ///     });
    ///
    ///     s.spawn(|_| {
    ///         value_c = Some(66);
    ///     });
    /// });
    /// assert_eq!(value_a, Some(22));
    /// assert_eq!(value_b, Some(44));
    /// assert_eq!(value_c, Some(66));
    /// ```
    ///
    /// # See also
    ///
    /// The [`scope` function] has more extensive documentation about
    /// task spawning.
    ///
    /// [`scope` function]: scope()
    pub fn spawn<BODY>(&self, body: BODY)
    where
        BODY: FnOnce(&Scope<'scope>) + Send + 'scope,
    {
        let scope_ptr = ScopePtr(self);
        let job = HeapJob::new(move || unsafe {
            // SAFETY: this job will execute before the scope ends.
            let scope = scope_ptr.as_ref();
            ScopeBase::execute_job(&scope.base, move || body(scope))
        });
        let job_ref = self.base.heap_job_ref(job);

        // Since `Scope` implements `Sync`, we can't be sure that we're still in a
        // thread of this pool, so we can't just push to the local worker thread.
        // Also, this might be an in-place scope.
        self.base.registry.inject_or_push(job_ref);
    }

    /// Spawns a job into every thread of the fork-join scope `self`. This job will
    /// execute on each thread sometime before the fork-join scope completes.  The
    /// job is specified as a closure, and this closure receives its own reference
    /// to the scope `self` as argument, as well as a `BroadcastContext`.
    pub fn spawn_broadcast<BODY>(&self, body: BODY)
    where
        BODY: Fn(&Scope<'scope>, BroadcastContext<'_>) + Send + Sync + 'scope,
    {
        let scope_ptr = ScopePtr(self);
        let job = ArcJob::new(move || unsafe {
            // SAFETY: this job will execute before the scope ends.
            let scope = scope_ptr.as_ref();
            let body = &body;
            let func = move || BroadcastContext::with(move |ctx| body(scope, ctx));
            ScopeBase::execute_job(&scope.base, func)
        });
        self.base.inject_broadcast(job)
    }
}

impl<'scope> ScopeFifo<'scope> {
    fn new(owner: Option<&WorkerThread>, registry: Option<&Arc<Registry>>) -> Self {
        let base = ScopeBase::new(owner, registry);
        let num_threads = base.registry.num_threads();
        let fifos = (0..num_threads).map(|_| JobFifo::new()).collect();
        ScopeFifo { base, fifos }
    }

    /// Spawns a job into the fork-join scope `self`. This job will
    /// execute sometime before the fork-join scope completes.  The
    /// job is specified as a closure, and this closure receives its
    /// own reference to the scope `self` as argument. This can be
    /// used to inject new jobs into `self`.
    ///
    /// # See also
    ///
    /// This method is akin to [`Scope::spawn()`], but with a FIFO
    /// priority.  The [`scope_fifo` function] has more details about
    /// this distinction.
    ///
    /// [`scope_fifo` function]: scope_fifo()
    pub fn spawn_fifo<BODY>(&self, body: BODY)
    where
        BODY: FnOnce(&ScopeFifo<'scope>) + Send + 'scope,
    {
        let scope_ptr = ScopePtr(self);
        let job = HeapJob::new(move || unsafe {
            // SAFETY: this job will execute before the scope ends.
            let scope = scope_ptr.as_ref();
            ScopeBase::execute_job(&scope.base, move || body(scope))
        });
        let job_ref = self.base.heap_job_ref(job);

        // If we're in the pool, use our scope's private fifo for this thread to execute
        // in a locally-FIFO order. Otherwise, just use the pool's global injector.
        match self.base.registry.current_thread() {
            Some(worker) => {
                let fifo = &self.fifos[worker.index()];
                // SAFETY: this job will execute before the scope ends.
                unsafe { worker.push(fifo.push(job_ref)) };
            }
            None => self.base.registry.inject(job_ref),
        }
    }

    /// Spawns a job into every thread of the fork-join scope `self`. This job will
    /// execute on each thread sometime before the fork-join scope completes.  The
    /// job is specified as a closure, and this closure receives its own reference
    /// to the scope `self` as argument, as well as a `BroadcastContext`.
    pub fn spawn_broadcast<BODY>(&self, body: BODY)
    where
        BODY: Fn(&ScopeFifo<'scope>, BroadcastContext<'_>) + Send + Sync + 'scope,
    {
        let scope_ptr = ScopePtr(self);
        let job = ArcJob::new(move || unsafe {
            // SAFETY: this job will execute before the scope ends.
            let scope = scope_ptr.as_ref();
            let body = &body;
            let func = move || BroadcastContext::with(move |ctx| body(scope, ctx));
            ScopeBase::execute_job(&scope.base, func)
        });
        self.base.inject_broadcast(job)
    }
}

impl<'scope> ScopeBase<'scope> {
    /// Creates the base of a new scope for the given registry
    fn new(owner: Option<&WorkerThread>, registry: Option<&Arc<Registry>>) -> Self {
        let registry = registry.unwrap_or_else(|| match owner {
            Some(owner) => owner.registry(),
            None => global_registry(),
        });

        ScopeBase {
            registry: Arc::clone(registry),
            panic: AtomicPtr::new(ptr::null_mut()),
            job_completed_latch: CountLatch::new(owner),
            marker: PhantomData,
        }
    }

    fn heap_job_ref<FUNC>(&self, job: Box<HeapJob<FUNC>>) -> JobRef
    where
        FUNC: FnOnce() + Send + 'scope,
    {
        unsafe {
            self.job_completed_latch.increment();
            job.into_job_ref()
        }
    }

    fn inject_broadcast<FUNC>(&self, job: Arc<ArcJob<FUNC>>)
    where
        FUNC: Fn() + Send + Sync + 'scope,
    {
        let n_threads = self.registry.num_threads();
        let job_refs = (0..n_threads).map(|_| unsafe {
            self.job_completed_latch.increment();
            ArcJob::as_job_ref(&job)
        });

        self.registry.inject_broadcast(job_refs);
    }

    /// Executes `func` as a job, either aborting or executing as
    /// appropriate.
    fn complete<FUNC, R>(&self, owner: Option<&WorkerThread>, func: FUNC) -> R
    where
        FUNC: FnOnce() -> R,
    {
        let result = unsafe { Self::execute_job_closure(self, func) };
        self.job_completed_latch.wait(owner);
        self.maybe_propagate_panic();
        result.unwrap() // only None if `op` panicked, and that would have been propagated
    }

    /// Executes `func` as a job, either aborting or executing as
    /// appropriate.
    unsafe fn execute_job<FUNC>(this: *const Self, func: FUNC)
    where
        FUNC: FnOnce(),
    {
        let _: Option<()> = Self::execute_job_closure(this, func);
    }

    /// Executes `func` as a job in scope. Adjusts the "job completed"
    /// counters and also catches any panic and stores it into
    /// `scope`.
    unsafe fn execute_job_closure<FUNC, R>(this: *const Self, func: FUNC) -> Option<R>
    where
        FUNC: FnOnce() -> R,
    {
        let result = match unwind::halt_unwinding(func) {
            Ok(r) => Some(r),
            Err(err) => {
                (*this).job_panicked(err);
                None
            }
        };
        Latch::set(&(*this).job_completed_latch);
        result
    }

    fn job_panicked(&self, err: Box<dyn Any + Send + 'static>) {
        // capture the first error we see, free the rest
        if self.panic.load(Ordering::Relaxed).is_null() {
            let nil = ptr::null_mut();
            let mut err = ManuallyDrop::new(Box::new(err)); // box up the fat ptr
            let err_ptr: *mut Box<dyn Any + Send + 'static> = &mut **err;
            if self
                .panic
                .compare_exchange(nil, err_ptr, Ordering::Release, Ordering::Relaxed)
                .is_ok()
            {
                // ownership now transferred into self.panic
            } else {
                // another panic raced in ahead of us, so drop ours
                let _: Box<Box<_>> = ManuallyDrop::into_inner(err);
            }
        }
    }

    fn maybe_propagate_panic(&self) {
        // propagate panic, if any occurred; at this point, all
        // outstanding jobs have completed, so we can use a relaxed
        // ordering:
        let panic = self.panic.swap(ptr::null_mut(), Ordering::Relaxed);
        if !panic.is_null() {
            let value = unsafe { Box::from_raw(panic) };
            unwind::resume_unwinding(*value);
        }
    }
}

impl<'scope> fmt::Debug for Scope<'scope> {
    fn fmt(&self, fmt: &mut fmt::Formatter<'_>) -> fmt::Result {
        fmt.debug_struct("Scope")
            .field("pool_id", &self.base.registry.id())
            .field("panic", &self.base.panic)
            .field("job_completed_latch", &self.base.job_completed_latch)
            .finish()
    }
}

impl<'scope> fmt::Debug for ScopeFifo<'scope> {
    fn fmt(&self, fmt: &mut fmt::Formatter<'_>) -> fmt::Result {
        fmt.debug_struct("ScopeFifo")
            .field("num_fifos", &self.fifos.len())
            .field("pool_id", &self.base.registry.id())
            .field("panic", &self.base.panic)
            .field("job_completed_latch", &self.base.job_completed_latch)
            .finish()
    }
}

/// Used to capture a scope `&Self` pointer in jobs, without faking a lifetime.
///
/// Unsafe code is still required to dereference the pointer, but that's fine in
/// scope jobs that are guaranteed to execute before the scope ends.
struct ScopePtr<T>(*const T);

// SAFETY: !Send for raw pointers is not for safety, just as a lint
unsafe impl<T: Sync> Send for ScopePtr<T> {}

// SAFETY: !Sync for raw pointers is not for safety, just as a lint
unsafe impl<T: Sync> Sync for ScopePtr<T> {}

impl<T> ScopePtr<T> {
    // Helper to avoid disjoint captures of `scope_ptr.0`
    unsafe fn as_ref(&self) -> &T {
        &*self.0
    }
}
