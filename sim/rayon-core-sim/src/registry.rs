use crate::job::{JobFifo, JobRef, StackJob};
use crate::latch::{AsCoreLatch, CoreLatch, Latch, LatchRef, LockLatch, OnceLatch, SpinLatch};
use crate::sleep::Sleep;
use crate::sync::Mutex;
use crate::unwind;
use crate::{
    ErrorKind, ExitHandler, PanicHandler, StartHandler, ThreadPoolBuildError, ThreadPoolBuilder,
    Yield,
};
use crossbeam_deque::{Injector, Steal, Stealer, Worker};
use std::cell::Cell;
use std::fmt;
use std::hash::{DefaultHasher, Hasher};
use std::io;
use std::mem;
use std::ptr;
use std::sync::atomic::{AtomicUsize, Ordering};
use std::sync::{Arc, Once};
use std::thread;

/// Thread builder used for customization via [`ThreadPoolBuilder::spawn_handler()`].
pub struct ThreadBuilder {
    name: Option<String>,
    stack_size: Option<usize>,
    worker: Worker<JobRef>,
    stealer: Stealer<JobRef>,
    registry: Arc<Registry>,
    index: usize,
}

impl ThreadBuilder {
    /// Gets the index of this thread in the pool, within `0..num_threads`.
    pub fn index(&self) -> usize {
        self.index
    }

    /// Gets the string that was specified by `ThreadPoolBuilder::name()`.
    pub fn name(&self) -> Option<&str> {
        self.name.as_deref()
    }

    /// Gets the value that was specified by `ThreadPoolBuilder::stack_size()`.
    pub fn stack_size(&self) -> Option<usize> {
        self.stack_size
    }

    /// Executes the main loop for this thread. This will not return until the
    /// thread pool is dropped.
    pub fn run(self) {
        unsafe { main_loop(self) }
    }
}

impl fmt::Debug for ThreadBuilder {
    fn fmt(&self, f: &mut fmt::Formatter<'_>) -> fmt::Result {
        f.debug_struct("ThreadBuilder")
            .field("pool", &self.registry.id())
            .field("index", &self.index)
            .field("name", &self.name)
            .field("stack_size", &self.stack_size)
            .finish()
    }
}

/// Generalized trait for spawning a thread in the `Registry`.
///
/// This trait is pub-in-private -- E0445 forces us to make it public,
/// but we don't actually want to expose these details in the API.
pub trait ThreadSpawn {
    private_decl! {}

    /// Spawn a thread with the `ThreadBuilder` parameters, and then
    /// call `ThreadBuilder::run()`.
    fn spawn(&mut self, thread: ThreadBuilder) -> io::Result<()>;
}

/// Spawns a thread in the "normal" way with `std::thread::Builder`.
///
/// This type is pub-in-private -- E0445 forces us to make it public,
/// but we don't actually want to expose these details in the API.
#[derive(Debug, Default)]
pub struct DefaultSpawn;

impl ThreadSpawn for DefaultSpawn {
    private_impl! {}

    fn spawn(&mut self, thread: ThreadBuilder) -> io::Result<()> {
        let mut b = thread::Builder::new();
        if let Some(name) = thread.name() {
            b = b.name(name.to_owned());
        }
        if let Some(stack_size) = thread.stack_size() {
            b = b.stack_size(stack_size);
        }
        b.spawn(|| thread.run())?;
        Ok(())
    }
}

/// Spawns a thread with a user's custom callback.
///
/// This type is pub-in-private -- E0445 forces us to make it public,
/// but we don't actually want to expose these details in the API.
#[derive(Debug)]
pub struct CustomSpawn<F>(F);

impl<F> CustomSpawn<F>
where
    F: FnMut(ThreadBuilder) -> io::Result<()>,
{
    pub(super) fn new(spawn: F) -> Self {
        CustomSpawn(spawn)
    }
}

impl<F> ThreadSpawn for CustomSpawn<F>
where
    F: FnMut(ThreadBuilder) -> io::Result<()>,
{
    private_impl! {}

    #[inline]
    fn spawn(&mut self, thread: ThreadBuilder) -> io::Result<()> {
        (self.0)(thread)
    }
}

pub(super) struct Registry {
    thread_infos: Vec<ThreadInfo>,
    sleep: Sleep,
    injected_jobs: Injector<JobRef>,
    broadcasts: Mutex<Vec<Worker<JobRef>>>,
    panic_handler: Option<Box<PanicHandler>>,
    start_handler: Option<Box<StartHandler>>,
    exit_handler: Option<Box<ExitHandler>>,

    // When this latch reaches 0, it means that all work on this
    // registry must be complete. This is ensured in the following ways:
    //
    // - if this is the global registry, there is a ref-count that never
    //   gets released.
    // - if this is a user-created thread pool, then so long as the thread pool
    //   exists, it holds a reference.
    // - when we inject a "blocking job" into the registry with `ThreadPool::install()`,
    //   no adjustment is needed; the `ThreadPool` holds the reference, and since we won't
    //   return until the blocking job is complete, that ref will continue to be held.
    // - when `join()` or `scope()` is invoked, similarly, no adjustments are needed.
    //   These are always owned by some other job (e.g., one injected by `ThreadPool::install()`)
    //   and that job will keep the pool alive.
    terminate_count: AtomicUsize,
}

// ////////////////////////////////////////////////////////////////////////
// Initialization

static mut THE_REGISTRY: Option<Arc<Registry>> = None;
static THE_REGISTRY_SET: Once = Once::new();

/// Starts the worker threads (if that has not already happened). If
/// initialization has not already occurred, use the default
/// configuration.
pub(super) fn global_registry() -> &'static Arc<Registry> {
    // [vpsim seam] probe: counts every use of the real global pool
    crate::sim::REAL_POOL_ENTRIES.fetch_add(1, std::sync::atomic::Ordering::Relaxed);
    set_global_registry(default_global_registry)
        .or_else(|err| {
            // SAFETY: we only create a shared reference to `THE_REGISTRY` after the `call_once`
            // that initializes it, and there will be no more mutable accesses at all.
            debug_assert!(THE_REGISTRY_SET.is_completed());
            let the_registry = unsafe { &*ptr::addr_of!(THE_REGISTRY) };
            the_registry.as_ref().ok_or(err)
        })
        .expect("The global thread pool has not been initialized.")
}

/// Starts the worker threads (if that has not already happened) with
/// the given builder.
pub(super) fn init_global_registry<S>(
    builder: ThreadPoolBuilder<S>,
) -> Result<&'static Arc<Registry>, ThreadPoolBuildError>
where
    S: ThreadSpawn,
{
    set_global_registry(|| Registry::new(builder))
}

/// Starts the worker threads (if that has not already happened)
/// by creating a registry with the given callback.
fn set_global_registry<F>(registry: F) -> Result<&'static Arc<Registry>, ThreadPoolBuildError>
where
    F: FnOnce() -> Result<Arc<Registry>, ThreadPoolBuildError>,
{
    let mut result = Err(ThreadPoolBuildError::new(
        ErrorKind::GlobalPoolAlreadyInitialized,
    ));

    THE_REGISTRY_SET.call_once(|| {
        result = registry().map(|registry: Arc<Registry>| {
            // SAFETY: this is the only mutable access to `THE_REGISTRY`, thanks to `Once`, and
            // `global_registry()` only takes a shared reference **after** this `call_once`.
            unsafe {
                ptr::addr_of_mut!(THE_REGISTRY).write(Some(registry));
                (*ptr::addr_of!(THE_REGISTRY)).as_ref().unwrap_unchecked()
            }
        })
    });

    result
}

fn default_global_registry() -> Result<Arc<Registry>, ThreadPoolBuildError> {
    let result = Registry::new(ThreadPoolBuilder::new());

    // If we're running in an environment that doesn't support threads at all, we can fall back to
    // using the current thread alone. This is crude, and probably won't work for non-blocking
    // calls like `spawn` or `broadcast_spawn`, but a lot of stuff does work fine.
    //
    // Notably, this allows current WebAssembly targets to work even though their threading support
    // is stubbed out, and we won't have to change anything if they do add real threading.
    let unsupported = matches!(&result, Err(e) if e.is_unsupported());
    if unsupported && WorkerThread::current().is_null() {
        let builder = ThreadPoolBuilder::new().num_threads(1).use_current_thread();
        let fallback_result = Registry::new(builder);
        if fallback_result.is_ok() {
            return fallback_result;
        }
    }

    result
}

struct Terminator<'a>(&'a Arc<Registry>);

impl<'a> Drop for Terminator<'a> {
    fn drop(&mut self) {
        self.0.terminate()
    }
}

impl Registry {
    pub(super) fn new<S>(
        mut builder: ThreadPoolBuilder<S>,
    ) -> Result<Arc<Self>, ThreadPoolBuildError>
    where
        S: ThreadSpawn,
    {
        // Soft-limit the number of threads that we can actually support.
        let n_threads = Ord::min(builder.get_num_threads(), crate::max_num_threads());

        let breadth_first = builder.get_breadth_first();

        let (workers, stealers): (Vec<_>, Vec<_>) = (0..n_threads)
            .map(|_| {
                let worker = if breadth_first {
                    Worker::new_fifo()
                } else {
                    Worker::new_lifo()
                };

                let stealer = worker.stealer();
                (worker, stealer)
            })
            .unzip();

        let (broadcasts, broadcast_stealers): (Vec<_>, Vec<_>) = (0..n_threads)
            .map(|_| {
                let worker = Worker::new_fifo();
                let stealer = worker.stealer();
                (worker, stealer)
            })
            .unzip();

        let registry = Arc::new(Registry {
            thread_infos: stealers.into_iter().map(ThreadInfo::new).collect(),
            sleep: Sleep::new(n_threads),
            injected_jobs: Injector::new(),
            broadcasts: Mutex::new(broadcasts),
            terminate_count: AtomicUsize::new(1),
            panic_handler: builder.take_panic_handler(),
            start_handler: builder.take_start_handler(),
            exit_handler: builder.take_exit_handler(),
        });

        // If we return early or panic, make sure to terminate existing threads.
        let t1000 = Terminator(&registry);

        for (index, (worker, stealer)) in workers.into_iter().zip(broadcast_stealers).enumerate() {
            let thread = ThreadBuilder {
                name: builder.get_thread_name(index),
                stack_size: builder.get_stack_size(),
                registry: Arc::clone(&registry),
                worker,
                stealer,
                index,
            };

            if index == 0 && builder.use_current_thread {
                if !WorkerThread::current().is_null() {
                    return Err(ThreadPoolBuildError::new(
                        ErrorKind::CurrentThreadAlreadyInPool,
                    ));
                }
                // Rather than starting a new thread, we're just taking over the current thread
                // *without* running the main loop, so we can still return from here.
                // The WorkerThread is leaked, but we never shutdown the global pool anyway.
                let worker_thread = Box::into_raw(Box::new(WorkerThread::from(thread)));

                unsafe {
                    WorkerThread::set_current(worker_thread);
                    Latch::set(&registry.thread_infos[index].primed);
                }
                continue;
            }

            if let Err(e) = builder.get_spawn_handler().spawn(thread) {
                return Err(ThreadPoolBuildError::new(ErrorKind::IOError(e)));
            }
        }

        // Returning normally now, without termination.
        mem::forget(t1000);

        Ok(registry)
    }

    pub(super) fn current() -> Arc<Registry> {
        unsafe {
            let worker_thread = WorkerThread::current();
            let registry = if worker_thread.is_null() {
                global_registry()
            } else {
                &(*worker_thread).registry
            };
            Arc::clone(registry)
        }
    }

    /// Returns the number of threads in the current registry.  This
    /// is better than `Registry::current().num_threads()` because it
    /// avoids incrementing the `Arc`.
    pub(super) fn current_num_threads() -> usize {
        unsafe {
            let worker_thread = WorkerThread::current();
            if worker_thread.is_null() {
                global_registry().num_threads()
            } else {
                (*worker_thread).registry.num_threads()
            }
        }
    }

    /// Returns the current `WorkerThread` if it's part of this `Registry`.
    pub(super) fn current_thread(&self) -> Option<&WorkerThread> {
        unsafe {
            let worker = WorkerThread::current().as_ref()?;
            if worker.registry().id() == self.id() {
                Some(worker)
            } else {
                None
            }
        }
    }

    /// Returns an opaque identifier for this registry.
    pub(super) fn id(&self) -> RegistryId {
        // We can rely on `self` not to change since we only ever create
        // registries that are boxed up in an `Arc` (see `new()` above).
        RegistryId {
            addr: self as *const Self as usize,
        }
    }

    pub(super) fn num_threads(&self) -> usize {
        self.thread_infos.len()
    }

    pub(super) fn catch_unwind(&self, f: impl FnOnce()) {
        if let Err(err) = unwind::halt_unwinding(f) {
            // If there is no handler, or if that handler itself panics, then we abort.
            let abort_guard = unwind::AbortIfPanic;
            if let Some(ref handler) = self.panic_handler {
                handler(err);
                mem::forget(abort_guard);
            }
        }
    }

    /// Waits for the worker threads to get up and running.  This is
    /// meant to be used for benchmarking purposes, primarily, so that
    /// you can get more consistent numbers by having everything
    /// "ready to go".
    pub(super) fn wait_until_primed(&self) {
        for info in &self.thread_infos {
            info.primed.wait();
        }
    }

    /// Waits for the worker threads to stop. This is used for testing
    /// -- so we can check that termination actually works.
    #[cfg(test)]
    pub(super) fn wait_until_stopped(&self) {
        for info in &self.thread_infos {
            info.stopped.wait();
        }
    }

    // ////////////////////////////////////////////////////////////////////////
    // MAIN LOOP
    //
    // So long as all of the worker threads are hanging out in their
    // top-level loop, there is no work to be done.

    /// Push a job into the given `registry`. If we are running on a
    /// worker thread for the registry, this will push onto the
    /// deque. Else, it will inject from the outside (which is slower).
    pub(super) fn inject_or_push(&self, job_ref: JobRef) {
        let worker_thread = WorkerThread::current();
        unsafe {
            if !worker_thread.is_null() && (*worker_thread).registry().id() == self.id() {
                (*worker_thread).push(job_ref);
            } else {
                self.inject(job_ref);
            }
        }
    }

    /// Push a job into the "external jobs" queue; it will be taken by
    /// whatever worker has nothing to do. Use this if you know that
    /// you are not on a worker of this registry.
    pub(super) fn inject(&self, injected_job: JobRef) {
        // It should not be possible for `state.terminate` to be true
        // here. It is only set to true when the user creates (and
        // drops) a `ThreadPool`; and, in that case, they cannot be
        // calling `inject()` later, since they dropped their
        // `ThreadPool`.
        debug_assert_ne!(
            self.terminate_count.load(Ordering::Acquire),
            0,
            "inject() sees state.terminate as true"
        );

        let queue_was_empty = self.injected_jobs.is_empty();

        self.injected_jobs.push(injected_job);
        self.sleep.new_injected_jobs(1, queue_was_empty);
    }

    fn has_injected_job(&self) -> bool {
        !self.injected_jobs.is_empty()
    }

    fn pop_injected_job(&self) -> Option<JobRef> {
        loop {
            match self.injected_jobs.steal() {
                Steal::Success(job) => return Some(job),
                Steal::Empty => return None,
                Steal::Retry => {}
            }
        }
    }

    /// Push a job into each thread's own "external jobs" queue; it will be
    /// executed only on that thread, when it has nothing else to do locally,
    /// before it tries to steal other work.
    ///
    /// **Panics** if not given exactly as many jobs as there are threads.
    pub(super) fn inject_broadcast(&self, injected_jobs: impl ExactSizeIterator<Item = JobRef>) {
        assert_eq!(self.num_threads(), injected_jobs.len());
        {
            let broadcasts = self.broadcasts.lock().unwrap();

            // It should not be possible for `state.terminate` to be true
            // here. It is only set to true when the user creates (and
            // drops) a `ThreadPool`; and, in that case, they cannot be
            // calling `inject_broadcast()` later, since they dropped their
            // `ThreadPool`.
            debug_assert_ne!(
                self.terminate_count.load(Ordering::Acquire),
                0,
                "inject_broadcast() sees state.terminate as true"
            );

            assert_eq!(broadcasts.len(), injected_jobs.len());
            for (worker, job_ref) in broadcasts.iter().zip(injected_jobs) {
                worker.push(job_ref);
            }
        }
        for i in 0..self.num_threads() {
            self.sleep.notify_worker_latch_is_set(i);
        }
    }

    /// If already in a worker-thread of this registry, just execute `op`.
    /// Otherwise, inject `op` in this thread pool. Either way, block until `op`
    /// completes and return its return value. If `op` panics, that panic will
    /// be propagated as well.  The second argument indicates `true` if injection
    /// was performed, `false` if executed directly.
    pub(super) fn in_worker<OP, R>(&self, op: OP) -> R
    where
        OP: FnOnce(&WorkerThread, bool) -> R + Send,
        R: Send,
    {
        unsafe {
            let worker_thread = WorkerThread::current();
            if worker_thread.is_null() {
                self.in_worker_cold(op)
            } else if (*worker_thread).registry().id() != self.id() {
                self.in_worker_cross(&*worker_thread, op)
            } else {
                // Perfectly valid to give them a `&T`: this is the
                // current thread, so we know the data structure won't be
                // invalidated until we return.
                op(&*worker_thread, false)
            }
        }
    }

    #[cold]
    unsafe fn in_worker_cold<OP, R>(&self, op: OP) -> R
    where
        OP: FnOnce(&WorkerThread, bool) -> R + Send,
        R: Send,
    {
        thread_local!(static LOCK_LATCH: LockLatch = const { LockLatch::new() });

        LOCK_LATCH.with(|l| {
            // This thread isn't a member of *any* thread pool, so just block.
            debug_assert!(WorkerThread::current().is_null());
            let job = StackJob::new(
                |injected| {
                    let worker_thread = WorkerThread::current();
                    assert!(injected && !worker_thread.is_null());
                    op(&*worker_thread, true)
                },
                LatchRef::new(l),
            );
            self.inject(job.as_job_ref());
            job.latch.wait_and_reset(); // Make sure we can use the same latch again next time.

            job.into_result()
        })
    }

    #[cold]
    unsafe fn in_worker_cross<OP, R>(&self, current_thread: &WorkerThread, op: OP) -> R
    where
        OP: FnOnce(&WorkerThread, bool) -> R + Send,
        R: Send,
    {
        // This thread is a member of a different pool, so let it process
        // other work while waiting for this `op` to complete.
        debug_assert!(current_thread.registry().id() != self.id());
        let latch = SpinLatch::cross(current_thread);
        let job = StackJob::new(
            |injected| {
                let worker_thread = WorkerThread::current();
                assert!(injected && !worker_thread.is_null());
                op(&*worker_thread, true)
            },
            latch,
        );
        self.inject(job.as_job_ref());
        current_thread.wait_until(&job.latch);
        job.into_result()
    }

    /// Increments the terminate counter. This increment should be
    /// balanced by a call to `terminate`, which will decrement. This
    /// is used when spawning asynchronous work, which needs to
    /// prevent the registry from terminating so long as it is active.
    ///
    /// Note that blocking functions such as `join` and `scope` do not
    /// need to concern themselves with this fn; their context is
    /// responsible for ensuring the current thread pool will not
    /// terminate until they return.
    ///
    /// The global thread pool always has an outstanding reference
    /// (the initial one). Custom thread pools have one outstanding
    /// reference that is dropped when the `ThreadPool` is dropped:
    /// since installing the thread pool blocks until any joins/scopes
    /// complete, this ensures that joins/scopes are covered.
    ///
    /// The exception is `::spawn()`, which can create a job outside
    /// of any blocking scope. In that case, the job itself holds a
    /// terminate count and is responsible for invoking `terminate()`
    /// when finished.
    pub(super) fn increment_terminate_count(&self) {
        let previous = self.terminate_count.fetch_add(1, Ordering::AcqRel);
        debug_assert!(previous != 0, "registry ref count incremented from zero");
        assert!(previous != usize::MAX, "overflow in registry ref count");
    }

    /// Signals that the thread pool which owns this registry has been
    /// dropped. The worker threads will gradually terminate, once any
    /// extant work is completed.
    pub(super) fn terminate(&self) {
        if self.terminate_count.fetch_sub(1, Ordering::AcqRel) == 1 {
            for (i, thread_info) in self.thread_infos.iter().enumerate() {
                unsafe { OnceLatch::set_and_tickle_one(&thread_info.terminate, self, i) };
            }
        }
    }

    /// Notify the worker that the latch they are sleeping on has been "set".
    pub(super) fn notify_worker_latch_is_set(&self, target_worker_index: usize) {
        self.sleep.notify_worker_latch_is_set(target_worker_index);
    }
}

#[derive(Copy, Clone, Debug, PartialEq, Eq, PartialOrd, Ord)]
pub(super) struct RegistryId {
    addr: usize,
}

struct ThreadInfo {
    /// Latch set once thread has started and we are entering into the
    /// main loop. Used to wait for worker threads to become primed,
    /// primarily of interest for benchmarking.
    primed: LockLatch,

    /// Latch is set once worker thread has completed. Used to wait
    /// until workers have stopped; only used for tests.
    stopped: LockLatch,

    /// The latch used to signal that terminated has been requested.
    /// This latch is *set* by the `terminate` method on the
    /// `Registry`, once the registry's main "terminate" counter
    /// reaches zero.
    terminate: OnceLatch,

    /// the "stealer" half of the worker's deque
    stealer: Stealer<JobRef>,
}

impl ThreadInfo {
    fn new(stealer: Stealer<JobRef>) -> ThreadInfo {
        ThreadInfo {
            primed: LockLatch::new(),
            stopped: LockLatch::new(),
            terminate: OnceLatch::new(),
            stealer,
        }
    }
}

// ////////////////////////////////////////////////////////////////////////
// WorkerThread identifiers

pub(super) struct WorkerThread {
    /// the "worker" half of our local deque
    worker: Worker<JobRef>,

    /// the "stealer" half of the worker's broadcast deque
    stealer: Stealer<JobRef>,

    /// local queue used for `spawn_fifo` indirection
    fifo: JobFifo,

    index: usize,

    /// A weak random number generator.
    rng: XorShift64Star,

    registry: Arc<Registry>,
}

// This is a bit sketchy, but basically: the WorkerThread is
// allocated on the stack of the worker on entry and stored into this
// thread-local variable. So it will remain valid at least until the
// worker is fully unwound. Using an unsafe pointer avoids the need
// for a RefCell<T> etc.
thread_local! {
    static WORKER_THREAD_STATE: Cell<*const WorkerThread> = const { Cell::new(ptr::null()) };
}

impl From<ThreadBuilder> for WorkerThread {
    fn from(thread: ThreadBuilder) -> Self {
        Self {
            worker: thread.worker,
            stealer: thread.stealer,
            fifo: JobFifo::new(),
            index: thread.index,
            rng: XorShift64Star::new(),
            registry: thread.registry,
        }
    }
}

impl Drop for WorkerThread {
    fn drop(&mut self) {
        // Undo `set_current`
        WORKER_THREAD_STATE.with(|t| {
            assert!(t.get().eq(&(self as *const _)));
            t.set(ptr::null());
        });
    }
}

impl WorkerThread {
    /// Gets the `WorkerThread` index for the current thread; returns
    /// NULL if this is not a worker thread. This pointer is valid
    /// anywhere on the current thread.
    #[inline]
    pub(super) fn current() -> *const WorkerThread {
        WORKER_THREAD_STATE.get()
    }

    /// Sets `self` as the worker-thread index for the current thread.
    /// This is done during worker-thread startup.
    unsafe fn set_current(thread: *const WorkerThread) {
        WORKER_THREAD_STATE.with(|t| {
            assert!(t.get().is_null());
            t.set(thread);
        });
    }

    /// Returns the registry that owns this worker thread.
    #[inline]
    pub(super) fn registry(&self) -> &Arc<Registry> {
        &self.registry
    }

    /// Our index amongst the worker threads (ranges from `0..self.num_threads()`).
    #[inline]
    pub(super) fn index(&self) -> usize {
        self.index
    }

    #[inline]
    pub(super) unsafe fn push(&self, job: JobRef) {
        let queue_was_empty = self.worker.is_empty();
        self.worker.push(job);
        self.registry.sleep.new_internal_jobs(1, queue_was_empty);
    }

    #[inline]
    pub(super) unsafe fn push_fifo(&self, job: JobRef) {
        self.push(self.fifo.push(job));
    }

    #[inline]
    pub(super) fn local_deque_is_empty(&self) -> bool {
        self.worker.is_empty()
    }

    /// Attempts to obtain a "local" job -- typically this means
    /// popping from the top of the stack, though if we are configured
    /// for breadth-first execution, it would mean dequeuing from the
    /// bottom.
    #[inline]
    pub(super) fn take_local_job(&self) -> Option<JobRef> {
        let popped_job = self.worker.pop();

        if popped_job.is_some() {
            return popped_job;
        }

        loop {
            match self.stealer.steal() {
                Steal::Success(job) => return Some(job),
                Steal::Empty => return None,
                Steal::Retry => {}
            }
        }
    }

    fn has_injected_job(&self) -> bool {
        !self.stealer.is_empty() || self.registry.has_injected_job()
    }

    /// Wait until the latch is set. Try to keep busy by popping and
    /// stealing tasks as necessary.
    #[inline]
    pub(super) unsafe fn wait_until<L: AsCoreLatch + ?Sized>(&self, latch: &L) {
        let latch = latch.as_core_latch();
        if !latch.probe() {
            self.wait_until_cold(latch);
        }
    }

    #[cold]
    unsafe fn wait_until_cold(&self, latch: &CoreLatch) {
        // the code below should swallow all panics and hence never
        // unwind; but if something does wrong, we want to abort,
        // because otherwise other code in rayon may assume that the
        // latch has been signaled, and that can lead to random memory
        // accesses, which would be *very bad*
        let abort_guard = unwind::AbortIfPanic;

        'outer: while !latch.probe() {
            // Check for local work *before* we start marking ourself idle,
            // especially to avoid modifying shared sleep state.
            if let Some(job) = self.take_local_job() {
                self.execute(job);
                continue;
            }

            let mut idle_state = self.registry.sleep.start_looking(self.index);
            while !latch.probe() {
                if let Some(job) = self.find_work() {
                    self.registry.sleep.work_found();
                    self.execute(job);
                    // The job might have injected local work, so go back to the outer loop.
                    continue 'outer;
                } else {
                    self.registry
                        .sleep
                        .no_work_found(&mut idle_state, latch, || self.has_injected_job())
                }
            }

            // If we were sleepy, we are not anymore. We "found work" --
            // whatever the surrounding thread was doing before it had to wait.
            self.registry.sleep.work_found();
            break;
        }

        mem::forget(abort_guard); // successful execution, do not abort
    }

    unsafe fn wait_until_out_of_work(&self) {
        debug_assert_eq!(self as *const _, WorkerThread::current());
        let registry = &*self.registry;
        let index = self.index;

        self.wait_until(&registry.thread_infos[index].terminate);

        // Should not be any work left in our queue.
        debug_assert!(self.take_local_job().is_none());

        // Let registry know we are done
        Latch::set(&registry.thread_infos[index].stopped);
    }

    fn find_work(&self) -> Option<JobRef> {
        // Try to find some work to do. We give preference first
        // to things in our local deque, then in other workers
        // deques, and finally to injected jobs from the
        // outside. The idea is to finish what we started before
        // we take on something new.
        self.take_local_job()
            .or_else(|| self.steal())
            .or_else(|| self.registry.pop_injected_job())
    }

    pub(super) fn yield_now(&self) -> Yield {
        match self.find_work() {
            Some(job) => unsafe {
                self.execute(job);
                Yield::Executed
            },
            None => Yield::Idle,
        }
    }

    pub(super) fn yield_local(&self) -> Yield {
        match self.take_local_job() {
            Some(job) => unsafe {
                self.execute(job);
                Yield::Executed
            },
            None => Yield::Idle,
        }
    }

    #[inline]
    pub(super) unsafe fn execute(&self, job: JobRef) {
        job.execute();
    }

    /// Try to steal a single job and return it.
    ///
    /// This should only be done as a last resort, when there is no
    /// local work to do.
    fn steal(&self) -> Option<JobRef> {
        // we only steal when we don't have any work to do locally
        debug_assert!(self.local_deque_is_empty());

        // otherwise, try to steal
        let thread_infos = &self.registry.thread_infos.as_slice();
        let num_threads = thread_infos.len();
        if num_threads <= 1 {
            return None;
        }

        loop {
            let mut retry = false;
            let start = self.rng.next_usize(num_threads);
            let job = (start..num_threads)
                .chain(0..start)
                .filter(move |&i| i != self.index)
                .find_map(|victim_index| {
                    let victim = &thread_infos[victim_index];
                    match victim.stealer.steal() {
                        Steal::Success(job) => Some(job),
                        Steal::Empty => None,
                        Steal::Retry => {
                            retry = true;
                            None
                        }
                    }
                });
            if job.is_some() || !retry {
                return job;
            }
        }
    }
}

// ////////////////////////////////////////////////////////////////////////

unsafe fn main_loop(thread: ThreadBuilder) {
    let worker_thread = &WorkerThread::from(thread);
    WorkerThread::set_current(worker_thread);
    let registry = &*worker_thread.registry;
    let index = worker_thread.index;

    // let registry know we are ready to do work
    Latch::set(&registry.thread_infos[index].primed);

    // Worker threads should not panic. If they do, just abort, as the
    // internal state of the thread pool is corrupted. Note that if
    // **user code** panics, we should catch that and redirect.
    let abort_guard = unwind::AbortIfPanic;

    // Inform a user callback that we started a thread.
    if let Some(ref handler) = registry.start_handler {
        registry.catch_unwind(|| handler(index));
    }

    worker_thread.wait_until_out_of_work();

    // Normal termination, do not abort.
    mem::forget(abort_guard);

    // Inform a user callback that we exited a thread.
    if let Some(ref handler) = registry.exit_handler {
        registry.catch_unwind(|| handler(index));
        // We're already exiting the thread, there's nothing else to do.
    }
}

/// If already in a worker-thread, just execute `op`.  Otherwise,
/// execute `op` in the default thread pool. Either way, block until
/// `op` completes and return its return value. If `op` panics, that
/// panic will be propagated as well.  The second argument indicates
/// `true` if injection was performed, `false` if executed directly.
pub(super) fn in_worker<OP, R>(op: OP) -> R
where
    OP: FnOnce(&WorkerThread, bool) -> R + Send,
    R: Send,
{
    unsafe {
        let owner_thread = WorkerThread::current();
        if !owner_thread.is_null() {
            // Perfectly valid to give them a `&T`: this is the
            // current thread, so we know the data structure won't be
            // invalidated until we return.
            op(&*owner_thread, false)
        } else {
            global_registry().in_worker(op)
        }
    }
}

/// [xorshift*] is a fast pseudorandom number generator which will
/// even tolerate weak seeding, as long as it's not zero.
///
/// [xorshift*]: https://en.wikipedia.org/wiki/Xorshift#xorshift*
struct XorShift64Star {
    state: Cell<u64>,
}

impl XorShift64Star {
    fn new() -> Self {
        // Any non-zero seed will do -- this uses the hash of a global counter.
        let mut seed = 0;
        while seed == 0 {
            let mut hasher = DefaultHasher::new();
            static COUNTER: AtomicUsize = AtomicUsize::new(0);
            hasher.write_usize(COUNTER.fetch_add(1, Ordering::Relaxed));
            seed = hasher.finish();
        }

        XorShift64Star {
            state: Cell::new(seed),
        }
    }

    fn next(&self) -> u64 {
        let mut x = self.state.get();
        debug_assert_ne!(x, 0);
        x ^= x >> 12;
        x ^= x << 25;
        x ^= x >> 27;
        self.state.set(x);
        x.wrapping_mul(0x2545_f491_4f6c_dd1d)
    }

    /// Return a value from `0..n`.
    fn next_usize(&self, n: usize) -> usize {
        (self.next() % n as u64) as usize
    }
}
