//! Rayon-core houses the core stable APIs of Rayon.
//!
//! These APIs have been mirrored in the Rayon crate and it is recommended to use these from there.
//!
//! [`join()`] is used to take two closures and potentially run them in parallel.
//!   - It will run in parallel if task B gets stolen before task A can finish.
//!   - It will run sequentially if task A finishes before task B is stolen and can continue on task B.
//!
//! [`scope()`] creates a scope in which you can run any number of parallel tasks.
//! These tasks can spawn nested tasks and scopes, but given the nature of work stealing, the order of execution can not be guaranteed.
//! The scope will exist until all tasks spawned within the scope have been completed.
//!
//! [`spawn()`] add a task into the 'static' or 'global' scope, or a local scope created by the [`scope()`] function.
//!
//! [`ThreadPool`] can be used to create your own thread pools (using [`ThreadPoolBuilder`]) or to customize the global one.
//! Tasks spawned within the pool (using [`install()`][tpinstall], [`join()`][tpjoin], etc.) will be added to a deque,
//! where it becomes available for work stealing from other threads in the local thread pool.
//!
//! [tpinstall]: ThreadPool::install()
//! [tpjoin]: ThreadPool::join()
//!
//! # Global fallback when threading is unsupported
//!
//! Rayon uses `std` APIs for threading, but some targets have incomplete implementations that
//! always return `Unsupported` errors. The WebAssembly `wasm32-unknown-unknown` and `wasm32-wasi`
//! targets are notable examples of this. Rather than panicking on the unsupported error when
//! creating the implicit global thread pool, Rayon configures a fallback mode instead.
//!
//! This fallback mode mostly functions as if it were using a single-threaded "pool", like setting
//! `RAYON_NUM_THREADS=1`. For example, `join` will execute its two closures sequentially, since
//! there is no other thread to share the work. However, since the pool is not running independent
//! of the main thread, non-blocking calls like `spawn` may not execute at all, unless a lower-
//! priority call like `broadcast` gives them an opening. The fallback mode does not try to emulate
//! anything like thread preemption or `async` task switching, but `yield_now` or `yield_local`
//! can also volunteer execution time.
//!
//! Explicit `ThreadPoolBuilder` methods always report their error without any fallback.
//!
//! # Restricting multiple versions
//!
//! In order to ensure proper coordination between thread pools, and especially
//! to make sure there's only one global thread pool, `rayon-core` is actively
//! restricted from building multiple versions of itself into a single target.
//! You may see a build error like this in violation:
//!
//! ```text
//! error: native library `rayon-core` is being linked to by more
//! than one package, and can only be linked to by one package
//! ```
//!
//! While we strive to keep `rayon-core` semver-compatible, it's still
//! possible to arrive at this situation if different crates have overly
//! restrictive tilde or inequality requirements for `rayon-core`.  The
//! conflicting requirements will need to be resolved before the build will
//! succeed.

#![deny(missing_debug_implementations)]
#![deny(missing_docs)]
#![deny(unreachable_pub)]
#![warn(rust_2018_idioms)]

use std::any::Any;
use std::env;
use std::error::Error;
use std::fmt;
use std::io;
use std::marker::PhantomData;
use std::str::FromStr;
use std::thread;

#[macro_use]
mod private;

mod broadcast;
mod job;
mod join;
mod latch;
mod registry;
mod scope;
mod sleep;
mod spawn;
mod thread_pool;
mod unwind;

#[cfg(any())]
mod test;

pub use self::broadcast::{broadcast, spawn_broadcast, BroadcastContext};
pub use self::join::{join, join_context};
pub use self::registry::ThreadBuilder;
pub use self::scope::{in_place_scope, scope, Scope};
pub use self::scope::{in_place_scope_fifo, scope_fifo, ScopeFifo};
pub use self::spawn::{spawn, spawn_fifo};
pub use self::thread_pool::current_thread_has_pending_tasks;
pub use self::thread_pool::current_thread_index;
pub use self::thread_pool::ThreadPool;
pub use self::thread_pool::{yield_local, yield_now, Yield};

#[cfg(not(feature = "web_spin_lock"))]
use std::sync;

#[cfg(feature = "web_spin_lock")]
use wasm_sync as sync;

use self::registry::{CustomSpawn, DefaultSpawn, ThreadSpawn};

/// Returns the maximum number of threads that Rayon supports in a single thread pool.
///
/// If a higher thread count is requested by calling `ThreadPoolBuilder::num_threads` or by setting
/// the `RAYON_NUM_THREADS` environment variable, then it will be reduced to this maximum.
///
/// The value may vary between different targets, and is subject to change in new Rayon versions.
pub fn max_num_threads() -> usize {
    // We are limited by the bits available in the sleep counter's `AtomicUsize`.
    crate::sleep::THREADS_MAX
}

/// Returns the number of threads in the current registry. If this
/// code is executing within a Rayon thread pool, then this will be
/// the number of threads for the thread pool of the current
/// thread. Otherwise, it will be the number of threads for the global
/// thread pool.
///
/// This can be useful when trying to judge how many times to split
/// parallel work (the parallel iterator traits use this value
/// internally for this purpose).
///
/// # Future compatibility note
///
/// Note that unless this thread pool was created with a
/// builder that specifies the number of threads, then this
/// number may vary over time in future versions (see [the
/// `num_threads()` method for details][snt]).
///
/// [snt]: ThreadPoolBuilder::num_threads
pub fn current_num_threads() -> usize {
    // [vpsim seam] a simulated executor, when installed, decides the pool size
    if let Some(exec) = crate::sim::current() {
        return exec.num_threads();
    }
    crate::registry::Registry::current_num_threads()
}

pub mod sim;

/// Error when initializing a thread pool.
#[derive(Debug)]
pub struct ThreadPoolBuildError {
    kind: ErrorKind,
}

#[derive(Debug)]
enum ErrorKind {
    GlobalPoolAlreadyInitialized,
    CurrentThreadAlreadyInPool,
    IOError(io::Error),
}

/// Used to create a new [`ThreadPool`] or to configure the global rayon thread pool.
/// ## Creating a ThreadPool
/// The following creates a thread pool with 22 threads.
///
/// ```ignore-wasm
/// # use rayon_core as rayon;
/// let pool = rayon::ThreadPoolBuilder::new().num_threads(22).build().unwrap();
/// ```
///
/// To instead configure the global thread pool, use [`build_global()`]:
///
/// ```ignore-wasm
/// # use rayon_core as rayon;
/// rayon::ThreadPoolBuilder::new().num_threads(22).build_global().unwrap();
/// ```
///
/// [`build_global()`]: Self::build_global()
pub struct ThreadPoolBuilder<S = DefaultSpawn> {
    /// The number of threads in the rayon thread pool.
    /// If zero will use the RAYON_NUM_THREADS environment variable.
    /// If RAYON_NUM_THREADS is invalid or zero will use the default.
    num_threads: usize,

    /// The thread we're building *from* will also be part of the pool.
    use_current_thread: bool,

    /// Custom closure, if any, to handle a panic that we cannot propagate
    /// anywhere else.
    panic_handler: Option<Box<PanicHandler>>,

    /// Closure to compute the name of a thread.
    get_thread_name: Option<Box<dyn FnMut(usize) -> String>>,

    /// The stack size for the created worker threads
    stack_size: Option<usize>,

    /// Closure invoked on worker-thread start.
    start_handler: Option<Box<StartHandler>>,

    /// Closure invoked on worker-thread exit.
    exit_handler: Option<Box<ExitHandler>>,

    /// Closure invoked to spawn threads.
    spawn_handler: S,

    /// If false, worker threads will execute spawned jobs in a
    /// "depth-first" fashion. If true, they will do a "breadth-first"
    /// fashion. Depth-first is the default.
    breadth_first: bool,
}

/// Contains the rayon thread pool configuration. Use [`ThreadPoolBuilder`] instead.
#[deprecated(note = "Use `ThreadPoolBuilder`")]
#[derive(Default)]
pub struct Configuration {
    builder: ThreadPoolBuilder,
}

/// The type for a panic-handling closure. Note that this same closure
/// may be invoked multiple times in parallel.
type PanicHandler = dyn Fn(Box<dyn Any + Send>) + Send + Sync;

/// The type for a closure that gets invoked when a thread starts. The
/// closure is passed the index of the thread on which it is invoked.
/// Note that this same closure may be invoked multiple times in parallel.
type StartHandler = dyn Fn(usize) + Send + Sync;

/// The type for a closure that gets invoked when a thread exits. The
/// closure is passed the index of the thread on which it is invoked.
/// Note that this same closure may be invoked multiple times in parallel.
type ExitHandler = dyn Fn(usize) + Send + Sync;

// NB: We can't `#[derive(Default)]` because `S` is left ambiguous.
impl Default for ThreadPoolBuilder {
    fn default() -> Self {
        ThreadPoolBuilder {
            num_threads: 0,
            use_current_thread: false,
            panic_handler: None,
            get_thread_name: None,
            stack_size: None,
            start_handler: None,
            exit_handler: None,
            spawn_handler: DefaultSpawn,
            breadth_first: false,
        }
    }
}

impl ThreadPoolBuilder {
    /// Creates and returns a valid rayon thread pool builder, but does not initialize it.
    pub fn new() -> Self {
        Self::default()
    }
}

/// Note: the `S: ThreadSpawn` constraint is an internal implementation detail for the
/// default spawn and those set by [`spawn_handler`](#method.spawn_handler).
impl<S> ThreadPoolBuilder<S>
where
    S: ThreadSpawn,
{
    /// Creates a new `ThreadPool` initialized using this configuration.
    pub fn build(self) -> Result<ThreadPool, ThreadPoolBuildError> {
        ThreadPool::build(self)
    }

    /// Initializes the global thread pool. This initialization is
    /// **optional**.  If you do not call this function, the thread pool
    /// will be automatically initialized with the default
    /// configuration. Calling `build_global` is not recommended, except
    /// in two scenarios:
    ///
    /// - You wish to change the default configuration.
    /// - You are running a benchmark, in which case initializing may
    ///   yield slightly more consistent results, since the worker threads
    ///   will already be ready to go even in the first iteration.  But
    ///   this cost is minimal.
    ///
    /// Initialization of the global thread pool happens exactly
    /// once. Once started, the configuration cannot be
    /// changed. Therefore, if you call `build_global` a second time, it
    /// will return an error. An `Ok` result indicates that this
    /// is the first initialization of the thread pool.
    pub fn build_global(self) -> Result<(), ThreadPoolBuildError> {
        let registry = registry::init_global_registry(self)?;
        registry.wait_until_primed();
        Ok(())
    }
}

impl ThreadPoolBuilder {
    /// Creates a scoped `ThreadPool` initialized using this configuration.
    ///
    /// This is a convenience function for building a pool using [`std::thread::scope`]
    /// to spawn threads in a [`spawn_handler`].
    /// The threads in this pool will start by calling `wrapper`, which should
    /// do initialization and continue by calling `ThreadBuilder::run()`.
    ///
    /// [`spawn_handler`]: Self::spawn_handler()
    ///
    /// # Examples
    ///
    /// A scoped pool may be useful in combination with scoped thread-local variables.
    ///
    /// ```ignore-wasm
    /// # use rayon_core as rayon;
    ///
    /// scoped_tls::scoped_thread_local!(static POOL_DATA: Vec<i32>);
    ///
    /// fn main() -> Result<(), rayon::ThreadPoolBuildError> {
    ///     let pool_data = vec![1, 2, 3];
    ///
    ///     // We haven't assigned any TLS data yet.
    ///     assert!(!POOL_DATA.is_set());
    ///
    ///     rayon::ThreadPoolBuilder::new()
    ///         .build_scoped(
    ///             // Borrow `pool_data` in TLS for each thread.
    ///             |thread| POOL_DATA.set(&pool_data, || thread.run()),
    ///             // Do some work that needs the TLS data.
    ///             |pool| pool.install(|| assert!(POOL_DATA.is_set())),
    ///         )?;
    ///
    ///     // Once we've returned, `pool_data` is no longer borrowed.
    ///     drop(pool_data);
    ///     Ok(())
    /// }
    /// ```
    pub fn build_scoped<W, F, R>(self, wrapper: W, with_pool: F) -> Result<R, ThreadPoolBuildError>
    where
        W: Fn(ThreadBuilder) + Sync, // expected to call `run()`
        F: FnOnce(&ThreadPool) -> R,
    {
        std::thread::scope(|scope| {
            let pool = self
                .spawn_handler(|thread| {
                    let mut builder = std::thread::Builder::new();
                    if let Some(name) = thread.name() {
                        builder = builder.name(name.to_string());
                    }
                    if let Some(size) = thread.stack_size() {
                        builder = builder.stack_size(size);
                    }
                    builder.spawn_scoped(scope, || wrapper(thread))?;
                    Ok(())
                })
                .build()?;
            Ok(with_pool(&pool))
        })
    }
}

impl<S> ThreadPoolBuilder<S> {
    /// Sets a custom function for spawning threads.
    ///
    /// Note that the threads will not exit until after the pool is dropped. It
    /// is up to the caller to wait for thread termination if that is important
    /// for any invariants. For instance, threads created in [`std::thread::scope`]
    /// will be joined before that scope returns, and this will block indefinitely
    /// if the pool is leaked. Furthermore, the global thread pool doesn't terminate
    /// until the entire process exits!
    ///
    /// # Examples
    ///
    /// A minimal spawn handler just needs to call `run()` from an independent thread.
    ///
    /// ```ignore-wasm
    /// # use rayon_core as rayon;
    /// fn main() -> Result<(), rayon::ThreadPoolBuildError> {
    ///     let pool = rayon::ThreadPoolBuilder::new()
    ///         .spawn_handler(|thread| {
    ///             std::thread::spawn(|| thread.run());
    ///             Ok(())
    ///         })
    ///         .build()?;
    ///
    ///     pool.install(|| println!("Hello from my custom thread!"));
    ///     Ok(())
    /// }
    /// ```
    ///
    /// The default spawn handler sets the name and stack size if given, and propagates
    /// any errors from the thread builder.
    ///
    /// ```ignore-wasm
    /// # use rayon_core as rayon;
    /// fn main() -> Result<(), rayon::ThreadPoolBuildError> {
    ///     let pool = rayon::ThreadPoolBuilder::new()
    ///         .spawn_handler(|thread| {
    ///             let mut b = std::thread::Builder::new();
    ///             if let Some(name) = thread.name() {
    ///                 b = b.name(name.to_owned());
    ///             }
    ///             if let Some(stack_size) = thread.stack_size() {
    ///                 b = b.stack_size(stack_size);
    ///             }
    ///             b.spawn(|| thread.run())?;
    ///             Ok(())
    ///         })
    ///         .build()?;
    ///
    ///     pool.install(|| println!("Hello from my fully custom thread!"));
    ///     Ok(())
    /// }
    /// ```
    ///
    /// This can also be used for a pool of scoped threads like [`crossbeam::scope`],
    /// or [`std::thread::scope`] introduced in Rust 1.63, which is encapsulated in
    /// [`build_scoped`].
    ///
    /// [`crossbeam::scope`]: https://docs.rs/crossbeam/0.8/crossbeam/fn.scope.html
    /// [`build_scoped`]: Self::build_scoped()
    ///
    /// ```ignore-wasm
    /// # use rayon_core as rayon;
    /// fn main() -> Result<(), rayon::ThreadPoolBuildError> {
    ///     std::thread::scope(|scope| {
    ///         let pool = rayon::ThreadPoolBuilder::new()
    ///             .spawn_handler(|thread| {
    ///                 let mut builder = std::thread::Builder::new();
    ///                 if let Some(name) = thread.name() {
    ///                     builder = builder.name(name.to_string());
    ///                 }
    ///                 if let Some(size) = thread.stack_size() {
    ///                     builder = builder.stack_size(size);
    ///                 }
    ///                 builder.spawn_scoped(scope, || {
    ///                     // Add any scoped initialization here, then run!
    ///                     thread.run()
    ///                 })?;
    ///                 Ok(())
    ///             })
    ///             .build()?;
    ///
    ///         pool.install(|| println!("Hello from my custom scoped thread!"));
    ///         Ok(())
    ///     })
    /// }
    /// ```
    pub fn spawn_handler<F>(self, spawn: F) -> ThreadPoolBuilder<CustomSpawn<F>>
    where
        F: FnMut(ThreadBuilder) -> io::Result<()>,
    {
        ThreadPoolBuilder {
            spawn_handler: CustomSpawn::new(spawn),
            // ..self
            num_threads: self.num_threads,
            use_current_thread: self.use_current_thread,
            panic_handler: self.panic_handler,
            get_thread_name: self.get_thread_name,
            stack_size: self.stack_size,
            start_handler: self.start_handler,
            exit_handler: self.exit_handler,
            breadth_first: self.breadth_first,
        }
    }

    /// Returns a reference to the current spawn handler.
    fn get_spawn_handler(&mut self) -> &mut S {
        &mut self.spawn_handler
    }

    /// Get the number of threads that will be used for the thread
    /// pool. See `num_threads()` for more information.
    fn get_num_threads(&self) -> usize {
        if self.num_threads > 0 {
            self.num_threads
        } else {
            let default = || {
                thread::available_parallelism()
                    .map(|n| n.get())
                    .unwrap_or(1)
            };

            match env::var("RAYON_NUM_THREADS")
                .ok()
                .and_then(|s| usize::from_str(&s).ok())
            {
                Some(x @ 1..) => return x,
                Some(0) => return default(),
                _ => {}
            }

            // Support for deprecated `RAYON_RS_NUM_CPUS`.
            match env::var("RAYON_RS_NUM_CPUS")
                .ok()
                .and_then(|s| usize::from_str(&s).ok())
            {
                Some(x @ 1..) => x,
                _ => default(),
            }
        }
    }

    /// Get the thread name for the thread with the given index.
    fn get_thread_name(&mut self, index: usize) -> Option<String> {
        let f = self.get_thread_name.as_mut()?;
        Some(f(index))
    }

    /// Sets a closure which takes a thread index and returns
    /// the thread's name.
    pub fn thread_name<F>(mut self, closure: F) -> Self
    where
        F: FnMut(usize) -> String + 'static,
    {
        self.get_thread_name = Some(Box::new(closure));
        self
    }

    /// Sets the number of threads to be used in the rayon thread pool.
    ///
    /// If you specify a non-zero number of threads using this
    /// function, then the resulting thread pools are guaranteed to
    /// start at most this number of threads.
    ///
    /// If `num_threads` is 0, or you do not call this function, then
    /// the Rayon runtime will select the number of threads
    /// automatically. At present, this is based on the
    /// `RAYON_NUM_THREADS` environment variable (if set),
    /// or the number of logical CPUs (otherwise).
    /// In the future, however, the default behavior may
    /// change to dynamically add or remove threads as needed.
    ///
    /// **Future compatibility warning:** Given the default behavior
    /// may change in the future, if you wish to rely on a fixed
    /// number of threads, you should use this function to specify
    /// that number. To reproduce the current default behavior, you
    /// may wish to use [`std::thread::available_parallelism`]
    /// to query the number of CPUs dynamically.
    ///
    /// **Old environment variable:** `RAYON_NUM_THREADS` is a one-to-one
    /// replacement of the now deprecated `RAYON_RS_NUM_CPUS` environment
    /// variable. If both variables are specified, `RAYON_NUM_THREADS` will
    /// be preferred.
    pub fn num_threads(mut self, num_threads: usize) -> Self {
        self.num_threads = num_threads;
        self
    }

    /// Use the current thread as one of the threads in the pool.
    ///
    /// The current thread is guaranteed to be at index 0, and since the thread is not managed by
    /// rayon, the spawn and exit handlers do not run for that thread.
    ///
    /// Note that the current thread won't run the main work-stealing loop, so jobs spawned into
    /// the thread pool will generally not be picked up automatically by this thread unless you
    /// yield to rayon in some way, like via [`yield_now()`], [`yield_local()`], or [`scope()`].
    ///
    /// # Local thread pools
    ///
    /// Using this in a local thread pool means the registry will be leaked. In future versions
    /// there might be a way of cleaning up the current-thread state.
    pub fn use_current_thread(mut self) -> Self {
        self.use_current_thread = true;
        self
    }

    /// Returns a copy of the current panic handler.
    fn take_panic_handler(&mut self) -> Option<Box<PanicHandler>> {
        self.panic_handler.take()
    }

    /// Normally, whenever Rayon catches a panic, it tries to
    /// propagate it to someplace sensible, to try and reflect the
    /// semantics of sequential execution. But in some cases,
    /// particularly with the `spawn()` APIs, there is no
    /// obvious place where we should propagate the panic to.
    /// In that case, this panic handler is invoked.
    ///
    /// If no panic handler is set, the default is to abort the
    /// process, under the principle that panics should not go
    /// unobserved.
    ///
    /// If the panic handler itself panics, this will abort the
    /// process. To prevent this, wrap the body of your panic handler
    /// in a call to `std::panic::catch_unwind()`.
    pub fn panic_handler<H>(mut self, panic_handler: H) -> Self
    where
        H: Fn(Box<dyn Any + Send>) + Send + Sync + 'static,
    {
        self.panic_handler = Some(Box::new(panic_handler));
        self
    }

    /// Get the stack size of the worker threads
    fn get_stack_size(&self) -> Option<usize> {
        self.stack_size
    }

    /// Sets the stack size of the worker threads
    pub fn stack_size(mut self, stack_size: usize) -> Self {
        self.stack_size = Some(stack_size);
        self
    }

    /// **(DEPRECATED)** Suggest to worker threads that they execute
    /// spawned jobs in a "breadth-first" fashion.
    ///
    /// Typically, when a worker thread is idle or blocked, it will
    /// attempt to execute the job from the *top* of its local deque of
    /// work (i.e., the job most recently spawned). If this flag is set
    /// to true, however, workers will prefer to execute in a
    /// *breadth-first* fashion -- that is, they will search for jobs at
    /// the *bottom* of their local deque. (At present, workers *always*
    /// steal from the bottom of other workers' deques, regardless of
    /// the setting of this flag.)
    ///
    /// If you think of the tasks as a tree, where a parent task
    /// spawns its children in the tree, then this flag loosely
    /// corresponds to doing a breadth-first traversal of the tree,
    /// whereas the default would be to do a depth-first traversal.
    ///
    /// **Note that this is an "execution hint".** Rayon's task
    /// execution is highly dynamic and the precise order in which
    /// independent tasks are executed is not intended to be
    /// guaranteed.
    ///
    /// This `breadth_first()` method is now deprecated per [RFC #1],
    /// and in the future its effect may be removed. Consider using
    /// [`scope_fifo()`] for a similar effect.
    ///
    /// [RFC #1]: https://github.com/rayon-rs/rfcs/blob/main/accepted/rfc0001-scope-scheduling.md
    #[deprecated(note = "use `scope_fifo` and `spawn_fifo` for similar effect")]
    pub fn breadth_first(mut self) -> Self {
        self.breadth_first = true;
        self
    }

    fn get_breadth_first(&self) -> bool {
        self.breadth_first
    }

    /// Takes the current thread start callback, leaving `None`.
    fn take_start_handler(&mut self) -> Option<Box<StartHandler>> {
        self.start_handler.take()
    }

    /// Sets a callback to be invoked on thread start.
    ///
    /// The closure is passed the index of the thread on which it is invoked.
    /// Note that this same closure may be invoked multiple times in parallel.
    /// If this closure panics, the panic will be passed to the panic handler.
    /// If that handler returns, then startup will continue normally.
    pub fn start_handler<H>(mut self, start_handler: H) -> Self
    where
        H: Fn(usize) + Send + Sync + 'static,
    {
        self.start_handler = Some(Box::new(start_handler));
        self
    }

    /// Returns a current thread exit callback, leaving `None`.
    fn take_exit_handler(&mut self) -> Option<Box<ExitHandler>> {
        self.exit_handler.take()
    }

    /// Sets a callback to be invoked on thread exit.
    ///
    /// The closure is passed the index of the thread on which it is invoked.
    /// Note that this same closure may be invoked multiple times in parallel.
    /// If this closure panics, the panic will be passed to the panic handler.
    /// If that handler returns, then the thread will exit normally.
    pub fn exit_handler<H>(mut self, exit_handler: H) -> Self
    where
        H: Fn(usize) + Send + Sync + 'static,
    {
        self.exit_handler = Some(Box::new(exit_handler));
        self
    }
}

#[allow(deprecated)]
impl Configuration {
    /// Creates and return a valid rayon thread pool configuration, but does not initialize it.
    pub fn new() -> Configuration {
        Configuration {
            builder: ThreadPoolBuilder::new(),
        }
    }

    /// Deprecated in favor of `ThreadPoolBuilder::build`.
    pub fn build(self) -> Result<ThreadPool, Box<dyn Error + 'static>> {
        self.builder.build().map_err(Box::from)
    }

    /// Deprecated in favor of `ThreadPoolBuilder::thread_name`.
    pub fn thread_name<F>(mut self, closure: F) -> Self
    where
        F: FnMut(usize) -> String + 'static,
    {
        self.builder = self.builder.thread_name(closure);
        self
    }

    /// Deprecated in favor of `ThreadPoolBuilder::num_threads`.
    pub fn num_threads(mut self, num_threads: usize) -> Configuration {
        self.builder = self.builder.num_threads(num_threads);
        self
    }

    /// Deprecated in favor of `ThreadPoolBuilder::panic_handler`.
    pub fn panic_handler<H>(mut self, panic_handler: H) -> Configuration
    where
        H: Fn(Box<dyn Any + Send>) + Send + Sync + 'static,
    {
        self.builder = self.builder.panic_handler(panic_handler);
        self
    }

    /// Deprecated in favor of `ThreadPoolBuilder::stack_size`.
    pub fn stack_size(mut self, stack_size: usize) -> Self {
        self.builder = self.builder.stack_size(stack_size);
        self
    }

    /// Deprecated in favor of `ThreadPoolBuilder::breadth_first`.
    pub fn breadth_first(mut self) -> Self {
        self.builder = self.builder.breadth_first();
        self
    }

    /// Deprecated in favor of `ThreadPoolBuilder::start_handler`.
    pub fn start_handler<H>(mut self, start_handler: H) -> Configuration
    where
        H: Fn(usize) + Send + Sync + 'static,
    {
        self.builder = self.builder.start_handler(start_handler);
        self
    }

    /// Deprecated in favor of `ThreadPoolBuilder::exit_handler`.
    pub fn exit_handler<H>(mut self, exit_handler: H) -> Configuration
    where
        H: Fn(usize) + Send + Sync + 'static,
    {
        self.builder = self.builder.exit_handler(exit_handler);
        self
    }

    /// Returns a ThreadPoolBuilder with identical parameters.
    fn into_builder(self) -> ThreadPoolBuilder {
        self.builder
    }
}

impl ThreadPoolBuildError {
    fn new(kind: ErrorKind) -> ThreadPoolBuildError {
        ThreadPoolBuildError { kind }
    }

    fn is_unsupported(&self) -> bool {
        matches!(&self.kind, ErrorKind::IOError(e) if e.kind() == io::ErrorKind::Unsupported)
    }
}

const GLOBAL_POOL_ALREADY_INITIALIZED: &str =
    "The global thread pool has already been initialized.";

const CURRENT_THREAD_ALREADY_IN_POOL: &str =
    "The current thread is already part of another thread pool.";

impl Error for ThreadPoolBuildError {
    #[allow(deprecated)]
    fn description(&self) -> &str {
        match self.kind {
            ErrorKind::GlobalPoolAlreadyInitialized => GLOBAL_POOL_ALREADY_INITIALIZED,
            ErrorKind::CurrentThreadAlreadyInPool => CURRENT_THREAD_ALREADY_IN_POOL,
            ErrorKind::IOError(ref e) => e.description(),
        }
    }

    fn source(&self) -> Option<&(dyn Error + 'static)> {
        match &self.kind {
            ErrorKind::GlobalPoolAlreadyInitialized | ErrorKind::CurrentThreadAlreadyInPool => None,
            ErrorKind::IOError(e) => Some(e),
        }
    }
}

impl fmt::Display for ThreadPoolBuildError {
    fn fmt(&self, f: &mut fmt::Formatter<'_>) -> fmt::Result {
        match &self.kind {
            ErrorKind::CurrentThreadAlreadyInPool => CURRENT_THREAD_ALREADY_IN_POOL.fmt(f),
            ErrorKind::GlobalPoolAlreadyInitialized => GLOBAL_POOL_ALREADY_INITIALIZED.fmt(f),
            ErrorKind::IOError(e) => e.fmt(f),
        }
    }
}

/// Deprecated in favor of `ThreadPoolBuilder::build_global`.
#[deprecated(note = "use `ThreadPoolBuilder::build_global`")]
#[allow(deprecated)]
pub fn initialize(config: Configuration) -> Result<(), Box<dyn Error>> {
    config.into_builder().build_global().map_err(Box::from)
}

impl<S> fmt::Debug for ThreadPoolBuilder<S> {
    fn fmt(&self, f: &mut fmt::Formatter<'_>) -> fmt::Result {
        let ThreadPoolBuilder {
            ref num_threads,
            ref use_current_thread,
            ref get_thread_name,
            ref panic_handler,
            ref stack_size,
            ref start_handler,
            ref exit_handler,
            spawn_handler: _,
            ref breadth_first,
        } = *self;

        // Just print `Some(<closure>)` or `None` to the debug
        // output.
        struct ClosurePlaceholder;
        impl fmt::Debug for ClosurePlaceholder {
            fn fmt(&self, f: &mut fmt::Formatter<'_>) -> fmt::Result {
                f.write_str("<closure>")
            }
        }
        let get_thread_name = get_thread_name.as_ref().map(|_| ClosurePlaceholder);
        let panic_handler = panic_handler.as_ref().map(|_| ClosurePlaceholder);
        let start_handler = start_handler.as_ref().map(|_| ClosurePlaceholder);
        let exit_handler = exit_handler.as_ref().map(|_| ClosurePlaceholder);

        f.debug_struct("ThreadPoolBuilder")
            .field("num_threads", num_threads)
            .field("use_current_thread", use_current_thread)
            .field("get_thread_name", &get_thread_name)
            .field("panic_handler", &panic_handler)
            .field("stack_size", &stack_size)
            .field("start_handler", &start_handler)
            .field("exit_handler", &exit_handler)
            .field("breadth_first", &breadth_first)
            .finish()
    }
}

#[allow(deprecated)]
impl fmt::Debug for Configuration {
    fn fmt(&self, f: &mut fmt::Formatter<'_>) -> fmt::Result {
        self.builder.fmt(f)
    }
}

/// Provides the calling context to a closure called by `join_context`.
#[derive(Debug)]
pub struct FnContext {
    migrated: bool,

    /// disable `Send` and `Sync`, just for a little future-proofing.
    _marker: PhantomData<*mut ()>,
}

impl FnContext {
    #[inline]
    fn new(migrated: bool) -> Self {
        FnContext {
            migrated,
            _marker: PhantomData,
        }
    }
}

impl FnContext {
    /// Returns `true` if the closure was called from a different thread
    /// than it was provided from.
    #[inline]
    pub fn migrated(&self) -> bool {
        self.migrated
    }
}
