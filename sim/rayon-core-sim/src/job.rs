use crate::latch::Latch;
use crate::unwind;
use crossbeam_deque::{Injector, Steal};
use std::any::Any;
use std::cell::UnsafeCell;
use std::mem;
use std::sync::Arc;

pub(super) enum JobResult<T> {
    None,
    Ok(T),
    Panic(Box<dyn Any + Send>),
}

/// A `Job` is used to advertise work for other threads that they may
/// want to steal. In accordance with time honored tradition, jobs are
/// arranged in a deque, so that thieves can take from the top of the
/// deque while the main worker manages the bottom of the deque. This
/// deque is managed by the `thread_pool` module.
pub(super) trait Job {
    /// Unsafe: this may be called from a different thread than the one
    /// which scheduled the job, so the implementer must ensure the
    /// appropriate traits are met, whether `Send`, `Sync`, or both.
    unsafe fn execute(this: *const ());
}

/// Effectively a Job trait object. Each JobRef **must** be executed
/// exactly once, or else data may leak.
///
/// Internally, we store the job's data in a `*const ()` pointer.  The
/// true type is something like `*const StackJob<...>`, but we hide
/// it. We also carry the "execute fn" from the `Job` trait.
pub(super) struct JobRef {
    pointer: *const (),
    execute_fn: unsafe fn(*const ()),
}

unsafe impl Send for JobRef {}
unsafe impl Sync for JobRef {}

impl JobRef {
    /// Unsafe: caller asserts that `data` will remain valid until the
    /// job is executed.
    pub(super) unsafe fn new<T>(data: *const T) -> JobRef
    where
        T: Job,
    {
        // erase types:
        JobRef {
            pointer: data as *const (),
            execute_fn: <T as Job>::execute,
        }
    }

    /// Returns an opaque handle that can be saved and compared,
    /// without making `JobRef` itself `Copy + Eq`.
    #[inline]
    pub(super) fn id(&self) -> impl Eq {
        (self.pointer, self.execute_fn)
    }

    #[inline]
    pub(super) unsafe fn execute(self) {
        (self.execute_fn)(self.pointer)
    }
}

/// A job that will be owned by a stack slot. This means that when it
/// executes it need not free any heap data, the cleanup occurs when
/// the stack frame is later popped.  The function parameter indicates
/// `true` if the job was stolen -- executed on a different thread.
pub(super) struct StackJob<L, F, R>
where
    L: Latch + Sync,
    F: FnOnce(bool) -> R + Send,
    R: Send,
{
    pub(super) latch: L,
    func: UnsafeCell<Option<F>>,
    result: UnsafeCell<JobResult<R>>,
}

impl<L, F, R> StackJob<L, F, R>
where
    L: Latch + Sync,
    F: FnOnce(bool) -> R + Send,
    R: Send,
{
    pub(super) fn new(func: F, latch: L) -> StackJob<L, F, R> {
        StackJob {
            latch,
            func: UnsafeCell::new(Some(func)),
            result: UnsafeCell::new(JobResult::None),
        }
    }

    pub(super) unsafe fn as_job_ref(&self) -> JobRef {
        JobRef::new(self)
    }

    pub(super) unsafe fn run_inline(self, stolen: bool) -> R {
        self.func.into_inner().unwrap()(stolen)
    }

    pub(super) unsafe fn into_result(self) -> R {
        self.result.into_inner().into_return_value()
    }
}

impl<L, F, R> Job for StackJob<L, F, R>
where
    L: Latch + Sync,
    F: FnOnce(bool) -> R + Send,
    R: Send,
{
    unsafe fn execute(this: *const ()) {
        let this = &*(this as *const Self);
        let abort = unwind::AbortIfPanic;
        let func = (*this.func.get()).take().unwrap();
        (*this.result.get()) = JobResult::call(func);
        Latch::set(&this.latch);
        mem::forget(abort);
    }
}

/// Represents a job stored in the heap. Used to implement
/// `scope`. Unlike `StackJob`, when executed, `HeapJob` simply
/// invokes a closure, which then triggers the appropriate logic to
/// signal that the job executed.
///
/// (Probably `StackJob` should be refactored in a similar fashion.)
pub(super) struct HeapJob<BODY>
where
    BODY: FnOnce() + Send,
{
    job: BODY,
}

impl<BODY> HeapJob<BODY>
where
    BODY: FnOnce() + Send,
{
    pub(super) fn new(job: BODY) -> Box<Self> {
        Box::new(HeapJob { job })
    }

    /// Creates a `JobRef` from this job -- note that this hides all
    /// lifetimes, so it is up to you to ensure that this JobRef
    /// doesn't outlive any data that it closes over.
    pub(super) unsafe fn into_job_ref(self: Box<Self>) -> JobRef {
        JobRef::new(Box::into_raw(self))
    }

    /// Creates a static `JobRef` from this job.
    pub(super) fn into_static_job_ref(self: Box<Self>) -> JobRef
    where
        BODY: 'static,
    {
        unsafe { self.into_job_ref() }
    }
}

impl<BODY> Job for HeapJob<BODY>
where
    BODY: FnOnce() + Send,
{
    unsafe fn execute(this: *const ()) {
        let this = Box::from_raw(this as *mut Self);
        (this.job)();
    }
}

/// Represents a job stored in an `Arc` -- like `HeapJob`, but may
/// be turned into multiple `JobRef`s and called multiple times.
pub(super) struct ArcJob<BODY>
where
    BODY: Fn() + Send + Sync,
{
    job: BODY,
}

impl<BODY> ArcJob<BODY>
where
    BODY: Fn() + Send + Sync,
{
    pub(super) fn new(job: BODY) -> Arc<Self> {
        Arc::new(ArcJob { job })
    }

    /// Creates a `JobRef` from this job -- note that this hides all
    /// lifetimes, so it is up to you to ensure that this JobRef
    /// doesn't outlive any data that it closes over.
    pub(super) unsafe fn as_job_ref(this: &Arc<Self>) -> JobRef {
        JobRef::new(Arc::into_raw(Arc::clone(this)))
    }

    /// Creates a static `JobRef` from this job.
    pub(super) fn as_static_job_ref(this: &Arc<Self>) -> JobRef
    where
        BODY: 'static,
    {
        unsafe { Self::as_job_ref(this) }
    }
}

impl<BODY> Job for ArcJob<BODY>
where
    BODY: Fn() + Send + Sync,
{
    unsafe fn execute(this: *const ()) {
        let this = Arc::from_raw(this as *mut Self);
        (this.job)();
    }
}

impl<T> JobResult<T> {
    fn call(func: impl FnOnce(bool) -> T) -> Self {
        match unwind::halt_unwinding(|| func(true)) {
            Ok(x) => JobResult::Ok(x),
            Err(x) => JobResult::Panic(x),
        }
    }

    /// Convert the `JobResult` for a job that has finished (and hence
    /// its JobResult is populated) into its return value.
    ///
    /// NB. This will panic if the job panicked.
    pub(super) fn into_return_value(self) -> T {
        match self {
            JobResult::None => unreachable!(),
            JobResult::Ok(x) => x,
            JobResult::Panic(x) => unwind::resume_unwinding(x),
        }
    }
}

/// Indirect queue to provide FIFO job priority.
pub(super) struct JobFifo {
    inner: Injector<JobRef>,
}

impl JobFifo {
    pub(super) fn new() -> Self {
        JobFifo {
            inner: Injector::new(),
        }
    }

    pub(super) unsafe fn push(&self, job_ref: JobRef) -> JobRef {
        // A little indirection ensures that spawns are always prioritized in FIFO order.  The
        // jobs in a thread's deque may be popped from the back (LIFO) or stolen from the front
        // (FIFO), but either way they will end up popping from the front of this queue.
        self.inner.push(job_ref);
        JobRef::new(self)
    }
}

impl Job for JobFifo {
    unsafe fn execute(this: *const ()) {
        // We "execute" a queue by executing its first job, FIFO.
        let this = &*(this as *const Self);
        loop {
            match this.inner.steal() {
                Steal::Success(job_ref) => break job_ref.execute(),
                Steal::Empty => panic!("FIFO is empty"),
                Steal::Retry => {}
            }
        }
    }
}
