#![cfg(test)]

use crate::ThreadPoolBuilder;
use std::sync::atomic::{AtomicUsize, Ordering};
use std::sync::mpsc::channel;
use std::sync::Arc;
use std::{thread, time};

#[test]
fn broadcast_global() {
    let v = crate::broadcast(|ctx| ctx.index());
    assert!(v.into_iter().eq(0..crate::current_num_threads()));
}

#[test]
#[cfg_attr(any(target_os = "emscripten", target_family = "wasm"), ignore)]
fn spawn_broadcast_global() {
    let (tx, rx) = channel();
    crate::spawn_broadcast(move |ctx| tx.send(ctx.index()).unwrap());

    let mut v: Vec<_> = rx.into_iter().collect();
    v.sort_unstable();
    assert!(v.into_iter().eq(0..crate::current_num_threads()));
}

#[test]
#[cfg_attr(any(target_os = "emscripten", target_family = "wasm"), ignore)]
fn broadcast_pool() {
    let pool = ThreadPoolBuilder::new().num_threads(7).build().unwrap();
    let v = pool.broadcast(|ctx| ctx.index());
    assert!(v.into_iter().eq(0..7));
}

#[test]
#[cfg_attr(any(target_os = "emscripten", target_family = "wasm"), ignore)]
fn spawn_broadcast_pool() {
    let (tx, rx) = channel();
    let pool = ThreadPoolBuilder::new().num_threads(7).build().unwrap();
    pool.spawn_broadcast(move |ctx| tx.send(ctx.index()).unwrap());

    let mut v: Vec<_> = rx.into_iter().collect();
    v.sort_unstable();
    assert!(v.into_iter().eq(0..7));
}

#[test]
#[cfg_attr(any(target_os = "emscripten", target_family = "wasm"), ignore)]
fn broadcast_self() {
    let pool = ThreadPoolBuilder::new().num_threads(7).build().unwrap();
    let v = pool.install(|| crate::broadcast(|ctx| ctx.index()));
    assert!(v.into_iter().eq(0..7));
}

#[test]
#[cfg_attr(any(target_os = "emscripten", target_family = "wasm"), ignore)]
fn spawn_broadcast_self() {
    let (tx, rx) = channel();
    let pool = ThreadPoolBuilder::new().num_threads(7).build().unwrap();
    pool.spawn(|| crate::spawn_broadcast(move |ctx| tx.send(ctx.index()).unwrap()));

    let mut v: Vec<_> = rx.into_iter().collect();
    v.sort_unstable();
    assert!(v.into_iter().eq(0..7));
}

#[test]
#[cfg_attr(any(target_os = "emscripten", target_family = "wasm"), ignore)]
fn broadcast_mutual() {
    let count = AtomicUsize::new(0);
    let pool1 = ThreadPoolBuilder::new().num_threads(3).build().unwrap();
    let pool2 = ThreadPoolBuilder::new().num_threads(7).build().unwrap();
    pool1.install(|| {
        pool2.broadcast(|_| {
            pool1.broadcast(|_| {
                count.fetch_add(1, Ordering::Relaxed);
            })
        })
    });
    assert_eq!(count.into_inner(), 3 * 7);
}

#[test]
#[cfg_attr(any(target_os = "emscripten", target_family = "wasm"), ignore)]
fn spawn_broadcast_mutual() {
    let (tx, rx) = channel();
    let pool1 = Arc::new(ThreadPoolBuilder::new().num_threads(3).build().unwrap());
    let pool2 = ThreadPoolBuilder::new().num_threads(7).build().unwrap();
    pool1.spawn({
        let pool1 = Arc::clone(&pool1);
        move || {
            pool2.spawn_broadcast(move |_| {
                let tx = tx.clone();
                pool1.spawn_broadcast(move |_| tx.send(()).unwrap())
            })
        }
    });
    assert_eq!(rx.into_iter().count(), 3 * 7);
}

#[test]
#[cfg_attr(any(target_os = "emscripten", target_family = "wasm"), ignore)]
fn broadcast_mutual_sleepy() {
    let count = AtomicUsize::new(0);
    let pool1 = ThreadPoolBuilder::new().num_threads(3).build().unwrap();
    let pool2 = ThreadPoolBuilder::new().num_threads(7).build().unwrap();
    pool1.install(|| {
        thread::sleep(time::Duration::from_secs(1));
        pool2.broadcast(|_| {
            thread::sleep(time::Duration::from_secs(1));
            pool1.broadcast(|_| {
                thread::sleep(time::Duration::from_millis(100));
                count.fetch_add(1, Ordering::Relaxed);
            })
        })
    });
    assert_eq!(count.into_inner(), 3 * 7);
}

#[test]
#[cfg_attr(any(target_os = "emscripten", target_family = "wasm"), ignore)]
fn spawn_broadcast_mutual_sleepy() {
    let (tx, rx) = channel();
    let pool1 = Arc::new(ThreadPoolBuilder::new().num_threads(3).build().unwrap());
    let pool2 = ThreadPoolBuilder::new().num_threads(7).build().unwrap();
    pool1.spawn({
        let pool1 = Arc::clone(&pool1);
        move || {
            thread::sleep(time::Duration::from_secs(1));
            pool2.spawn_broadcast(move |_| {
                let tx = tx.clone();
                thread::sleep(time::Duration::from_secs(1));
                pool1.spawn_broadcast(move |_| {
                    thread::sleep(time::Duration::from_millis(100));
                    tx.send(()).unwrap();
                })
            })
        }
    });
    assert_eq!(rx.into_iter().count(), 3 * 7);
}

#[test]
#[cfg_attr(not(panic = "unwind"), ignore)]
fn broadcast_panic_one() {
    let count = AtomicUsize::new(0);
    let pool = ThreadPoolBuilder::new().num_threads(7).build().unwrap();
    let result = crate::unwind::halt_unwinding(|| {
        pool.broadcast(|ctx| {
            count.fetch_add(1, Ordering::Relaxed);
            if ctx.index() == 3 {
                panic!("Hello, world!");
            }
        })
    });
    assert_eq!(count.into_inner(), 7);
    assert!(result.is_err(), "broadcast panic should propagate!");
}

#[test]
#[cfg_attr(not(panic = "unwind"), ignore)]
fn spawn_broadcast_panic_one() {
    let (tx, rx) = channel();
    let (panic_tx, panic_rx) = channel();
    let pool = ThreadPoolBuilder::new()
        .num_threads(7)
        .panic_handler(move |e| panic_tx.send(e).unwrap())
        .build()
        .unwrap();
    pool.spawn_broadcast(move |ctx| {
        tx.send(()).unwrap();
        if ctx.index() == 3 {
            panic!("Hello, world!");
        }
    });
    drop(pool); // including panic_tx
    assert_eq!(rx.into_iter().count(), 7);
    assert_eq!(panic_rx.into_iter().count(), 1);
}

#[test]
#[cfg_attr(not(panic = "unwind"), ignore)]
fn broadcast_panic_many() {
    let count = AtomicUsize::new(0);
    let pool = ThreadPoolBuilder::new().num_threads(7).build().unwrap();
    let result = crate::unwind::halt_unwinding(|| {
        pool.broadcast(|ctx| {
            count.fetch_add(1, Ordering::Relaxed);
            if ctx.index() % 2 == 0 {
                panic!("Hello, world!");
            }
        })
    });
    assert_eq!(count.into_inner(), 7);
    assert!(result.is_err(), "broadcast panic should propagate!");
}

#[test]
#[cfg_attr(not(panic = "unwind"), ignore)]
fn spawn_broadcast_panic_many() {
    let (tx, rx) = channel();
    let (panic_tx, panic_rx) = channel();
    let pool = ThreadPoolBuilder::new()
        .num_threads(7)
        .panic_handler(move |e| panic_tx.send(e).unwrap())
        .build()
        .unwrap();
    pool.spawn_broadcast(move |ctx| {
        tx.send(()).unwrap();
        if ctx.index() % 2 == 0 {
            panic!("Hello, world!");
        }
    });
    drop(pool); // including panic_tx
    assert_eq!(rx.into_iter().count(), 7);
    assert_eq!(panic_rx.into_iter().count(), 4);
}

#[test]
#[cfg_attr(any(target_os = "emscripten", target_family = "wasm"), ignore)]
fn broadcast_sleep_race() {
    let test_duration = time::Duration::from_secs(1);
    let pool = ThreadPoolBuilder::new().num_threads(7).build().unwrap();
    let start = time::Instant::now();
    while start.elapsed() < test_duration {
        pool.broadcast(|ctx| {
            // A slight spread of sleep duration increases the chance that one
            // of the threads will race in the pool's idle sleep afterward.
            thread::sleep(time::Duration::from_micros(ctx.index() as u64));
        });
    }
}

#[test]
fn broadcast_after_spawn_broadcast() {
    let (tx, rx) = channel();

    // Queue a non-blocking spawn_broadcast.
    crate::spawn_broadcast(move |ctx| tx.send(ctx.index()).unwrap());

    // This blocking broadcast runs after all prior broadcasts.
    crate::broadcast(|_| {});

    // The spawn_broadcast **must** have run by now on all threads.
    let mut v: Vec<_> = rx.try_iter().collect();
    v.sort_unstable();
    assert!(v.into_iter().eq(0..crate::current_num_threads()));
}

#[test]
fn broadcast_after_spawn() {
    let (tx, rx) = channel();

    // Queue a regular spawn on a thread-local deque.
    crate::registry::in_worker(move |_, _| {
        crate::spawn(move || tx.send(22).unwrap());
    });

    // Broadcast runs after the local deque is empty.
    crate::broadcast(|_| {});

    // The spawn **must** have run by now.
    assert_eq!(22, rx.try_recv().unwrap());
}
