use crate::job::{ArcJob, StackJob};
use crate::latch::{CountLatch, LatchRef};
use crate::registry::{Registry, WorkerThread};
use std::fmt;
use std::marker::PhantomData;
use std::sync::Arc;

mod test;

/// Executes `op` within every thread in the current thread pool. If this is
/// called from a non-Rayon thread, it will execute in the global thread pool.
/// Any attempts to use `join`, `scope`, or parallel iterators will then operate
/// within that thread pool. When the call has completed on each thread, returns
/// a vector containing all of their return values.
///
/// For more information, see the [`ThreadPool::broadcast()`] method.
///
/// [`ThreadPool::broadcast()`]: crate::ThreadPool::broadcast()
pub fn broadcast<OP, R>(op: OP) -> Vec<R>
where
    OP: Fn(BroadcastContext<'_>) -> R + Sync,
    R: Send,
{
    // We assert that current registry has not terminated.
    unsafe { broadcast_in(op, &Registry::current()) }
}

/// Spawns an asynchronous task on every thread in this thread pool. This task
/// will run in the implicit, global scope, which means that it may outlast the
/// current stack frame -- therefore, it cannot capture any references onto the
/// stack (you will likely need a `move` closure).
///
/// For more information, see the [`ThreadPool::spawn_broadcast()`] method.
///
/// [`ThreadPool::spawn_broadcast()`]: crate::ThreadPool::spawn_broadcast()
pub fn spawn_broadcast<OP>(op: OP)
where
    OP: Fn(BroadcastContext<'_>) + Send + Sync + 'static,
{
    // We assert that current registry has not terminated.
    unsafe { spawn_broadcast_in(op, &Registry::current()) }
}

/// Provides context to a closure called by `broadcast`.
pub struct BroadcastContext<'a> {
    worker: &'a WorkerThread,

    /// Make sure to prevent auto-traits like `Send` and `Sync`.
    _marker: PhantomData<&'a mut dyn Fn()>,
}

impl<'a> BroadcastContext<'a> {
    pub(super) fn with<R>(f: impl FnOnce(BroadcastContext<'_>) -> R) -> R {
        let worker_thread = WorkerThread::current();
        assert!(!worker_thread.is_null());
        f(BroadcastContext {
            worker: unsafe { &*worker_thread },
            _marker: PhantomData,
        })
    }

    /// Our index amongst the broadcast threads (ranges from `0..self.num_threads()`).
    #[inline]
    pub fn index(&self) -> usize {
        self.worker.index()
    }

    /// The number of threads receiving the broadcast in the thread pool.
    ///
    /// # Future compatibility note
    ///
    /// Future versions of Rayon might vary the number of threads over time, but
    /// this method will always return the number of threads which are actually
    /// receiving your particular `broadcast` call.
    #[inline]
    pub fn num_threads(&self) -> usize {
        self.worker.registry().num_threads()
    }
}

impl<'a> fmt::Debug for BroadcastContext<'a> {
    fn fmt(&self, fmt: &mut fmt::Formatter<'_>) -> fmt::Result {
        fmt.debug_struct("BroadcastContext")
            .field("index", &self.index())
            .field("num_threads", &self.num_threads())
            .field("pool_id", &self.worker.registry().id())
            .finish()
    }
}

/// Execute `op` on every thread in the pool. It will be executed on each
/// thread when they have nothing else to do locally, before they try to
/// steal work from other threads. This function will not return until all
/// threads have completed the `op`.
///
/// Unsafe because `registry` must not yet have terminated.
pub(super) unsafe fn broadcast_in<OP, R>(op: OP, registry: &Arc<Registry>) -> Vec<R>
where
    OP: Fn(BroadcastContext<'_>) -> R + Sync,
    R: Send,
{
    let f = move |injected: bool| {
        debug_assert!(injected);
        BroadcastContext::with(&op)
    };

    let n_threads = registry.num_threads();
    let current_thread = WorkerThread::current().as_ref();
    let latch = CountLatch::with_count(n_threads, current_thread);
    let jobs: Vec<_> = (0..n_threads)
        .map(|_| StackJob::new(&f, LatchRef::new(&latch)))
        .collect();
    let job_refs = jobs.iter().map(|job| job.as_job_ref());

    registry.inject_broadcast(job_refs);

    // Wait for all jobs to complete, then collect the results, maybe propagating a panic.
    latch.wait(current_thread);
    jobs.into_iter().map(|job| job.into_result()).collect()
}

/// Execute `op` on every thread in the pool. It will be executed on each
/// thread when they have nothing else to do locally, before they try to
/// steal work from other threads. This function returns immediately after
/// injecting the jobs.
///
/// Unsafe because `registry` must not yet have terminated.
pub(super) unsafe fn spawn_broadcast_in<OP>(op: OP, registry: &Arc<Registry>)
where
    OP: Fn(BroadcastContext<'_>) + Send + Sync + 'static,
{
    let job = ArcJob::new({
        let registry = Arc::clone(registry);
        move || {
            registry.catch_unwind(|| BroadcastContext::with(&op));
            registry.terminate(); // (*) permit registry to terminate now
        }
    });

    let n_threads = registry.num_threads();
    let job_refs = (0..n_threads).map(|_| {
        // Ensure that registry cannot terminate until this job has executed
        // on each thread. This ref is decremented at the (*) above.
        registry.increment_terminate_count();

        ArcJob::as_static_job_ref(&job)
    });

    registry.inject_broadcast(job_refs);
}
