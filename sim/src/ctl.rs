//! World controller: every call that crosses the model seam (S1/S2) is sequenced, logged
//! and checked against the fault plan here. The simulator's clock is the sequence number
//! of these events.

use crate::spec::{CallKind, FaultAction, FaultRule, Persist, Trigger};
use std::collections::BTreeMap;
use std::sync::atomic::{AtomicBool, AtomicU64, Ordering};
use std::sync::Mutex;

/// Heartbeat for the hang watchdog: bumped at every model-seam event and every operation
/// boundary. Global so that the watchdog thread needs no handle on the world.
pub static HEARTBEAT: AtomicU64 = AtomicU64::new(0);

/// number of model-seam events of all controllers so far: lets code without a handle on the
/// world (the uniform problem wrapper) measure how many model calls one library call made,
/// so that the harness's own follow-up queries are not mistaken for the library's
pub static EVENTS: AtomicU64 = AtomicU64::new(0);

/// what the worker is doing right now (for the watchdog's HANG record)
pub static PHASE: Mutex<String> = Mutex::new(String::new());
pub static CURRENT: Mutex<Option<crate::spec::Scenario>> = Mutex::new(None);

pub fn set_phase(p: &str) {
    beat();
    let mut g = PHASE.lock().unwrap_or_else(|e| e.into_inner());
    g.clear();
    g.push_str(p);
}
pub fn phase() -> String {
    PHASE.lock().unwrap_or_else(|e| e.into_inner()).clone()
}
/// the (sub-)scenario whose execution is in flight
pub fn set_current(sc: &crate::spec::Scenario) {
    beat();
    *CURRENT.lock().unwrap_or_else(|e| e.into_inner()) = Some(sc.clone());
}
pub fn current() -> Option<crate::spec::Scenario> {
    CURRENT.lock().unwrap_or_else(|e| e.into_inner()).clone()
}

thread_local! {
    /// this OS thread is executing the shuttle runtime (all shuttle tasks of a run share one OS
    /// thread). A library that enters the REAL rayon pool (scope/spawn/an own pool - nothing on
    /// the pinned tree does) runs parts of its work on other OS threads, where shuttle's
    /// primitives must not be touched: there the model seam simply does not yield.
    static IN_SHUTTLE: std::cell::Cell<bool> = const { std::cell::Cell::new(false) };
}
pub struct ShuttleScope(bool);
impl ShuttleScope {
    pub fn enter() -> Self {
        ShuttleScope(IN_SHUTTLE.with(|c| c.replace(true)))
    }
}
impl Drop for ShuttleScope {
    fn drop(&mut self) {
        IN_SHUTTLE.with(|c| c.set(self.0));
    }
}
pub fn in_shuttle_thread() -> bool {
    IN_SHUTTLE.with(|c| c.get())
}

#[inline]
pub fn beat() {
    HEARTBEAT.fetch_add(1, Ordering::Relaxed);
}

#[derive(Clone, Debug, PartialEq)]
pub struct Event {
    pub seq: u64,
    pub kind: CallKind,
    /// 0-based occurrence of this kind
    pub nth: u32,
    /// hash of the parameter bits the call saw (for set_params: the new parameters)
    pub alpha_hash: u64,
    /// what the fault plan made of it
    pub fault: Option<FaultAction>,
}

#[derive(Default)]
struct Inner {
    seq: u64,
    counts: BTreeMap<CallKind, u32>,
    log: Vec<Event>,
    rules: Vec<FaultRule>,
    /// rule index -> sequence number at which it first fired
    armed: Vec<Option<u64>>,
    fired: u64,
    /// hard cap on events per run
    cap: u64,
    cap_hit: bool,
}

pub struct Ctl {
    inner: Mutex<Inner>,
    /// in overlap mode the model seam yields to the shuttle scheduler around each call
    pub overlap: AtomicBool,
    /// disables faults without clearing them (used for the fault-free sections of a run)
    pub faults_enabled: AtomicBool,
}

pub const EVENT_CAP: u64 = 200_000;

impl Ctl {
    pub fn new(rules: Vec<FaultRule>) -> Self {
        let n = rules.len();
        Ctl {
            inner: Mutex::new(Inner {
                rules,
                armed: vec![None; n],
                cap: EVENT_CAP,
                ..Default::default()
            }),
            overlap: AtomicBool::new(false),
            faults_enabled: AtomicBool::new(true),
        }
    }

    fn lock(&self) -> std::sync::MutexGuard<'_, Inner> {
        self.inner.lock().unwrap_or_else(|e| e.into_inner())
    }

    /// Register a call; returns the fault to apply, if any.
    pub fn call(&self, kind: CallKind, alpha_hash: u64) -> Option<FaultAction> {
        beat();
        EVENTS.fetch_add(1, Ordering::SeqCst);
        let mut g = self.lock();
        let seq = g.seq;
        g.seq += 1;
        let nth = {
            let c = g.counts.entry(kind).or_insert(0);
            let v = *c;
            *c += 1;
            v
        };
        let mut fault = None;
        if self.faults_enabled.load(Ordering::Relaxed) {
            for i in 0..g.rules.len() {
                let r = g.rules[i];
                let hit_trigger = match r.trigger {
                    Trigger::Kind(k, n) => k == kind && n == nth,
                    Trigger::Global(s) => s == seq,
                };
                if hit_trigger && g.armed[i].is_none() {
                    g.armed[i] = Some(seq);
                }
                let active = match (g.armed[i], r.persist) {
                    (None, _) => false,
                    (Some(s0), Persist::Once) => s0 == seq && hit_trigger,
                    (Some(_), Persist::Forever) => true,
                    (Some(s0), Persist::Burst(b)) => seq < s0 + b as u64,
                };
                if active && fault.is_none() {
                    fault = Some(adapt(r.action, kind));
                }
            }
        }
        if fault.is_some() {
            g.fired += 1;
        }
        if g.seq > g.cap {
            g.cap_hit = true;
        } else {
            g.log.push(Event {
                seq,
                kind,
                nth,
                alpha_hash,
                fault,
            });
        }
        fault
    }

    pub fn seq(&self) -> u64 {
        self.lock().seq
    }
    pub fn fired(&self) -> u64 {
        self.lock().fired
    }
    pub fn cap_hit(&self) -> bool {
        self.lock().cap_hit
    }
    pub fn log(&self) -> Vec<Event> {
        self.lock().log.clone()
    }
    pub fn log_len(&self) -> usize {
        self.lock().log.len()
    }
    pub fn log_since(&self, from: usize) -> Vec<Event> {
        let g = self.lock();
        g.log[from.min(g.log.len())..].to_vec()
    }
    pub fn set_rules(&self, rules: Vec<FaultRule>) {
        let mut g = self.lock();
        g.armed = vec![None; rules.len()];
        g.rules = rules;
    }
    /// a marathon operation announces its (known, bounded) number of model calls
    pub fn raise_cap(&self, extra: u64) {
        self.lock().cap += extra;
    }
    pub fn set_overlap(&self, on: bool) {
        self.overlap.store(on, Ordering::SeqCst);
    }
    pub fn enable_faults(&self, on: bool) {
        self.faults_enabled.store(on, Ordering::SeqCst);
    }
    /// in overlap mode: a scheduling point for the shuttle scheduler
    #[inline]
    pub fn sched_point(&self) {
        if self.overlap.load(Ordering::Relaxed) && in_shuttle_thread() {
            shuttle::thread::sleep(std::time::Duration::from_millis(0));
        }
    }
}

/// Make an action meaningful for the kind of call it lands on (a persistent fault hits calls
/// of other kinds than the one it was planned for).
fn adapt(a: FaultAction, kind: CallKind) -> FaultAction {
    match (a, kind) {
        (FaultAction::FailAfterMutate, CallKind::SetParams) => FaultAction::FailAfterMutate,
        (FaultAction::FailAfterMutate, _) => FaultAction::Fail,
        (FaultAction::WrongLen(l), CallKind::Func(_) | CallKind::FuncDeriv(_, _)) => {
            FaultAction::WrongLen(l)
        }
        (FaultAction::WrongLen(_), _) => FaultAction::Fail,
        (FaultAction::NonFinite(_, _), CallKind::SetParams) => FaultAction::Fail,
        (a, _) => a,
    }
}

/// compact text form of a log for hashing / diffing
pub fn log_digest(log: &[Event]) -> u64 {
    let mut h: u64 = 0xcbf2_9ce4_8422_2325;
    let mut eat = |v: u64| {
        for k in 0..8 {
            h ^= (v >> (8 * k)) & 0xff;
            h = h.wrapping_mul(0x0000_0100_0000_01B3);
        }
    };
    for e in log {
        eat(e.seq);
        eat(crate::sc::hash_str(&format!("{:?}", e.kind)));
        eat(e.nth as u64);
        eat(e.alpha_hash);
        eat(crate::sc::hash_str(&format!("{:?}", e.fault)));
    }
    h
}

