//! Seeded scenario generation (swarm style: every run draws its own sizes, workload mix,
//! enabled fault kinds and knobs). Everything is drawn from the one `Rng` of the run.

use crate::prng::Rng;
use crate::refmath;
use crate::sc::vec_of;
use crate::spec::*;
use nalgebra::DVector;

/// round to the scalar width so that the scenario's f64 values are exactly representable
pub fn rw(width: Width, v: f64) -> f64 {
    match width {
        Width::F64 => v,
        Width::F32 => (v as f32) as f64,
    }
}

#[derive(Clone, Copy, Debug)]
pub struct Sizes {
    pub max_n: usize,
    pub max_m: usize,
    pub max_p: usize,
    pub max_s: usize,
}

pub const SMALL: Sizes = Sizes {
    max_n: 12,
    max_m: 3,
    max_p: 3,
    max_s: 2,
};
pub const LARGE: Sizes = Sizes {
    max_n: 48,
    max_m: 5,
    max_p: 4,
    max_s: 4,
};
pub const HUGE: Sizes = Sizes {
    max_n: 96,
    max_m: 8,
    max_p: 9,
    max_s: 10,
};

/// swarm over problem sizes: mostly small, a tail of large, a thin tail of huge problems
pub fn pick_sizes(rng: &mut Rng, thorough: bool, p_large: f64) -> Sizes {
    let r = rng.unit();
    let p_huge = if thorough { 0.06 } else { 0.025 };
    if r < p_huge {
        HUGE
    } else if r < p_huge + p_large {
        LARGE
    } else {
        SMALL
    }
}

/// A random model: M basis functions over P shared nonlinear parameters, every parameter
/// used, no two identical columns.
pub fn gen_model(rng: &mut Rng, kind: ModelKind, max_m: usize, max_p: usize) -> ModelSpec {
    loop {
        let p = rng.usize_in(1, max_p.max(1));
        let m_target = rng.usize_in(1, max_m.max(1));
        let mut fams: Vec<Family> = vec![];
        let mut slots = 0usize;
        let mut have_const = false;
        let mut have_lin = false;
        while fams.len() < m_target {
            let f = if rng.chance(0.2) {
                if !have_const && rng.chance(0.6) {
                    have_const = true;
                    Family::Const
                } else if !have_lin {
                    have_lin = true;
                    Family::Linear
                } else {
                    continue;
                }
            } else {
                *rng.pick(&Family::PARAMETRIC)
            };
            if f.arity() > p {
                continue;
            }
            slots += f.arity();
            fams.push(f);
        }
        if slots < p {
            // not enough slots to use every parameter: add parametric functions if room
            continue;
        }
        // cover all parameters first, then fill the remaining slots randomly
        let mut cover: Vec<usize> = (0..p).collect();
        rng.shuffle(&mut cover);
        let mut funcs: Vec<FuncSpec> = fams
            .iter()
            .map(|f| FuncSpec {
                family: *f,
                params: vec![],
            })
            .collect();
        // slot list in random order
        let mut slot_ids: Vec<(usize, usize)> = vec![];
        for (j, f) in fams.iter().enumerate() {
            for l in 0..f.arity() {
                slot_ids.push((j, l));
            }
        }
        for f in funcs.iter_mut() {
            f.params = vec![usize::MAX; f.family.arity()];
        }
        rng.shuffle(&mut slot_ids);
        let mut ok = true;
        for (j, l) in slot_ids {
            // prefer an uncovered parameter not yet used by this function
            let cand = cover
                .iter()
                .position(|k| !funcs[j].params.contains(k))
                .map(|i| cover.remove(i));
            let k = match cand {
                Some(k) => k,
                None => {
                    let free: Vec<usize> =
                        (0..p).filter(|k| !funcs[j].params.contains(k)).collect();
                    if free.is_empty() {
                        ok = false;
                        break;
                    }
                    *rng.pick(&free)
                }
            };
            funcs[j].params[l] = k;
        }
        if !ok || !cover.is_empty() {
            continue;
        }
        // rank-deficient corner: occasionally repeat a basis function (identical columns)
        if rng.chance(0.04) && funcs.len() < max_m.max(2) {
            let j = rng.usize_in(0, funcs.len() - 1);
            let f = funcs[j].clone();
            funcs.push(f);
            return ModelSpec {
                kind,
                funcs,
                nparams: p,
                store_then_fail: rng.chance(0.5),
            };
        }
        // reject identical columns
        let mut dup = false;
        for a in 0..funcs.len() {
            for b in (a + 1)..funcs.len() {
                if funcs[a] == funcs[b] {
                    dup = true;
                }
            }
        }
        if dup {
            continue;
        }
        return ModelSpec {
            kind,
            funcs,
            nparams: p,
            store_then_fail: rng.chance(0.5),
        };
    }
}

/// role of model parameter k = its role in the first function that uses it
fn role(spec: &ModelSpec, k: usize) -> (Family, usize) {
    for f in &spec.funcs {
        if let Some(l) = f.params.iter().position(|i| *i == k) {
            return (f.family, l);
        }
    }
    (Family::ExpRate, 0)
}

/// a benign "true" value for parameter k on a grid spanning [0, xmax]
pub fn nice_param(rng: &mut Rng, spec: &ModelSpec, k: usize, xmax: f64) -> f64 {
    match role(spec, k) {
        (Family::ExpTau, _) => rng.range(0.15, 1.2) * xmax,
        (Family::ExpRate, _) => rng.range(0.3, 4.0) / xmax,
        (Family::Gauss | Family::TanhStep, 0) => rng.range(0.2, 0.8) * xmax,
        (Family::Gauss | Family::TanhStep, _) => rng.range(0.08, 0.35) * xmax,
        (Family::DampCos | Family::DampSin | Family::PhaseCos, 0) => rng.range(0.1, 2.0) / xmax,
        (Family::DampCos | Family::DampSin | Family::PhaseCos, 1) => rng.range(2.0, 9.0) / xmax,
        (Family::PhaseCos, _) => rng.range(-2.5, 2.5),
        (Family::Rational, _) => rng.range(0.3, 5.0) / xmax,
        (Family::Cubic4, l) => rng.range(-1.5, 1.5) / xmax.powi(l as i32),
        (Family::ExpQuad5, 0) => rng.range(-0.5, 0.5),
        (Family::ExpQuad5, 1) => rng.range(0.2, 3.0) / xmax,
        (Family::ExpQuad5, l) => rng.range(-1.5, 1.5) / xmax.powi(l as i32 - 2),
        _ => rng.range(0.5, 2.0),
    }
}

#[derive(Clone, Copy, Debug, PartialEq)]
pub enum Start {
    Exact,
    Near,
    Mid,
    Far,
}

#[derive(Clone, Copy, Debug, PartialEq)]
pub enum WeightKind {
    None,
    Ones,
    Mild,
    Wide,
    WithZeros,
    WithNegatives,
    /// all weights equal, but not 1 (e.g. 1/sigma with one shared sigma)
    Constant,
}

pub struct DataGen {
    pub x: Vec<f64>,
    pub y: Vec<Vec<f64>>,
    pub alpha_true: Vec<f64>,
    pub alpha0: Vec<f64>,
    pub weights: Option<Vec<f64>>,
}

pub fn gen_weights(rng: &mut Rng, kind: WeightKind, n: usize, width: Width) -> Option<Vec<f64>> {
    let w: Vec<f64> = match kind {
        WeightKind::None => return None,
        WeightKind::Ones => vec![1.0; n],
        WeightKind::Mild => (0..n).map(|_| rng.range(0.2, 5.0)).collect(),
        WeightKind::Wide => (0..n).map(|_| rng.log_uniform(-3.0, 3.0)).collect(),
        WeightKind::WithZeros => {
            let mut w: Vec<f64> = (0..n).map(|_| rng.range(0.2, 5.0)).collect();
            let k = rng.usize_in(1, (n / 4).max(1));
            for _ in 0..k {
                let i = rng.usize_in(0, n - 1);
                w[i] = 0.0;
            }
            w
        }
        WeightKind::Constant => {
            let v = match rng.below(6) {
                0 => -rng.range(0.2, 5.0),
                1 => rng.log_uniform(-3.0, 3.0),
                2 => 0.0,
                _ => rng.range(0.1, 6.0),
            };
            vec![v; n]
        }
        WeightKind::WithNegatives => (0..n)
            .map(|_| {
                let v = rng.range(0.2, 5.0);
                if rng.chance(0.4) {
                    -v
                } else {
                    v
                }
            })
            .collect(),
    };
    Some(w.into_iter().map(|v| rw(width, v)).collect())
}

pub fn pick_weight_kind(rng: &mut Rng) -> WeightKind {
    match rng.weighted(&[3.0, 0.5, 3.0, 1.5, 1.0, 1.0, 0.8]) {
        0 => WeightKind::None,
        1 => WeightKind::Ones,
        2 => WeightKind::Mild,
        3 => WeightKind::Wide,
        4 => WeightKind::WithZeros,
        5 => WeightKind::WithNegatives,
        _ => WeightKind::Constant,
    }
}

/// x grid, observations generated by the model itself plus noise, start value
#[allow(clippy::too_many_arguments)]
pub fn gen_data(
    rng: &mut Rng,
    spec: &ModelSpec,
    width: Width,
    n: usize,
    s: usize,
    noise_rel: f64,
    start: Start,
    wk: WeightKind,
) -> DataGen {
    let xmax = rng.range(3.0, 10.0);
    let jitter = rng.chance(0.3);
    // grid variants: [0, xmax] (usual), shifted to start at a positive offset, centred on 0,
    // descending order
    let grid = rng.weighted(&[6.0, 1.0, 1.0, 1.0]);
    let x: Vec<f64> = (0..n)
        .map(|i| {
            let t = if n > 1 { i as f64 / (n - 1) as f64 } else { 0.5 };
            let base = match grid {
                1 => xmax * (0.2 + 0.8 * t),
                2 => xmax * (t - 0.5) * 0.8,
                3 => xmax * (1.0 - t),
                _ => xmax * t,
            };
            let v = if jitter && i > 0 {
                base + rng.range(-0.3, 0.3) * xmax / n as f64
            } else {
                base
            };
            rw(width, v)
        })
        .collect();
    let alpha_true: Vec<f64> = (0..spec.nparams)
        .map(|k| rw(width, nice_param(rng, spec, k, xmax)))
        .collect();
    let xv: DVector<f64> = vec_of(&x);
    let phi = refmath::phi::<f64>(spec, &xv, &alpha_true);
    let mut y = vec![];
    // magnitude of the observations: mostly O(1), sometimes tiny or large
    let yscale = match rng.below(20) {
        0 | 1 => rng.log_uniform(-6.0, -2.0),
        2 | 3 => rng.log_uniform(2.0, 6.0),
        // far from the magnitude of the basis functions (f32 keeps within its range)
        4 => rng.log_uniform(-20.0, -6.0),
        5 => rng.log_uniform(6.0, if width == Width::F32 { 12.0 } else { 20.0 }),
        _ => 1.0,
    };
    for _ in 0..s {
        let c: Vec<f64> = (0..spec.m())
            .map(|_| {
                let v = rng.range(0.5, 5.0) * yscale;
                if rng.chance(0.3) {
                    -v
                } else {
                    v
                }
            })
            .collect();
        let cv = DVector::from_vec(c);
        let clean = &phi * cv;
        let scale = clean.iter().fold(0.0f64, |m, v| m.max(v.abs())).max(1e-3 * yscale);
        let col: Vec<f64> = clean
            .iter()
            .map(|v| rw(width, v + noise_rel * scale * rng.normal()))
            .collect();
        y.push(col);
    }
    let alpha0: Vec<f64> = alpha_true
        .iter()
        .map(|a| {
            let v = match start {
                Start::Exact => *a,
                Start::Near => a * (1.0 + rng.range(-0.03, 0.03)),
                Start::Mid => a * (1.0 + rng.range(-0.35, 0.35)),
                Start::Far => {
                    let f = rng.log_uniform(-1.0, 1.0);
                    a * f
                }
            };
            rw(width, v)
        })
        .collect();
    let weights = gen_weights(rng, wk, n, width);
    DataGen {
        x,
        y,
        alpha_true,
        alpha0,
        weights,
    }
}

/// a parameter vector for a caller-driven SetParams: mostly benign perturbations of `base`,
/// sometimes far, sometimes extreme (overflowing the basis), sometimes a revisit
pub fn gen_alpha_update(
    rng: &mut Rng,
    base: &[f64],
    visited: &[Vec<f64>],
    width: Width,
    allow_extreme: bool,
) -> Vec<f64> {
    let r = rng.unit();
    if r < 0.22 && !visited.is_empty() {
        return rng.pick(visited).clone();
    }
    // incremental history: nudge a subset of the components of the parameters in effect
    // (the last applied vector, whatever it was — huge, tiny or ordinary) by a relative
    // amount between one ulp and ten percent
    if r < 0.36 && !visited.is_empty() {
        let prev = visited.last().unwrap();
        let k_only = rng.usize_in(0, prev.len().max(1) - 1);
        let all = rng.chance(0.3);
        return prev
            .iter()
            .enumerate()
            .map(|(k, a)| {
                if all || k == k_only {
                    let d = rng.log_uniform(-17.0, -1.0);
                    let v = if rng.chance(0.5) { a * (1.0 + d) } else { a * (1.0 - d) };
                    // make sure the value really differs where the nudge is below one ulp
                    let v = if v == *a && rng.chance(0.7) {
                        match width {
                            Width::F64 => f64::from_bits(a.to_bits().wrapping_add(1)),
                            Width::F32 => f32::from_bits((*a as f32).to_bits().wrapping_add(1)) as f64,
                        }
                    } else {
                        v
                    };
                    rw(width, v)
                } else {
                    *a
                }
            })
            .collect();
    }
    let extreme = allow_extreme && r > 0.90;
    // an extreme update hits either every parameter or a single one (so that e.g. a
    // frequency of exactly 0 or an underflowing decay meets otherwise ordinary parameters)
    let only: Option<usize> = if extreme && rng.chance(0.6) {
        Some(rng.usize_in(0, base.len().max(1) - 1))
    } else {
        None
    };
    base.iter()
        .enumerate()
        .map(|(k, a)| {
            let ext_here = extreme && only.map(|o| o == k).unwrap_or(true);
            let v = if ext_here {
                match rng.below(7) {
                    0 => -a * rng.log_uniform(-4.0, -2.0),
                    1 => a * 1e-300,
                    2 => 0.0,
                    3 => a * rng.log_uniform(6.0, 30.0),
                    4 => a * rng.log_uniform(-5.0, -3.0),
                    5 => -0.0,
                    _ => -a,
                }
            } else if r < 0.75 || extreme {
                a * (1.0 + rng.range(-0.4, 0.4))
            } else {
                a * rng.log_uniform(-0.7, 0.7)
            };
            rw(width, v)
        })
        .collect()
}

pub fn gen_opt(rng: &mut Rng, width: Width) -> OptCfg {
    let mut o = OptCfg::default();
    let eps = match width {
        Width::F64 => f64::EPSILON,
        Width::F32 => f32::EPSILON as f64,
    };
    match rng.below(8) {
        0 => o.patience = rng.usize_in(1, 5),
        1 => {
            o.ftol = Some(Fx(rw(width, rng.log_uniform(-6.0, -1.0))));
            o.xtol = Some(Fx(rw(width, rng.log_uniform(-6.0, -1.0))));
        }
        2 => {
            o.ftol = Some(Fx(0.0));
            o.xtol = Some(Fx(0.0));
            o.gtol = Some(Fx(0.0));
            o.patience = rng.usize_in(3, 30);
        }
        3 => {
            o.stepbound = Some(Fx(rw(width, rng.log_uniform(-4.0, -1.0))));
            o.patience = rng.usize_in(3, 40);
        }
        4 => {
            o.scale_diag = false;
            o.patience = rng.usize_in(5, 60);
        }
        5 => {
            o.gtol = Some(Fx(rw(width, rng.log_uniform(-3.0, -0.5))));
        }
        6 => {
            o.ftol = Some(Fx(eps));
            o.xtol = Some(Fx(eps));
            o.patience = rng.usize_in(10, 100);
        }
        _ => {}
    }
    o
}

pub fn gen_sched(rng: &mut Rng, parallel: bool, allow_overlap: bool) -> SchedSpec {
    if !parallel {
        return SchedSpec::sequentialish();
    }
    let pool = if rng.chance(0.5) {
        rng.usize_in(1, 16)
    } else {
        *rng.pick(&[1usize, 2, 2, 3, 4, 4, 6, 8, 12, 16])
    };
    let mix = match rng.below(5) {
        0 => [1.0, 0.0, 0.0, 0.0],
        1 => [0.0, 0.5, 0.5, 0.0],
        2 => [0.25, 0.25, 0.25, 0.25],
        3 => [0.1, 0.1, 0.1, 0.7],
        _ => [rng.unit(), rng.unit(), rng.unit(), rng.unit() * 0.5],
    };
    let overlap = allow_overlap && rng.chance(0.5);
    SchedSpec {
        pool,
        injected: rng.chance(0.5),
        tape_seed: rng.next_u64(),
        mix: [Fx(mix[0] + 1e-9), Fx(mix[1]), Fx(mix[2]), Fx(mix[3])],
        overlap,
        shuttle_seed: rng.next_u64(),
    }
}

pub fn pick_width(rng: &mut Rng) -> Width {
    if rng.chance(0.3) {
        Width::F32
    } else {
        Width::F64
    }
}

/// Common skeleton: model, data, optimiser, no ops, no faults.
#[allow(clippy::too_many_arguments)]
pub fn base_scenario(
    rng: &mut Rng,
    property: &str,
    seed: u64,
    index: u64,
    kind: ModelKind,
    sizes: Sizes,
    parallel: bool,
    start: Start,
    noise_rel: f64,
) -> (Scenario, DataGen) {
    let width = pick_width(rng);
    // "corner" runs (4 %): rare options are drawn together rather than independently, so that
    // their conjunctions (many right-hand sides AND a zero threshold AND a rank-deficient
    // basis AND many parameters ...) are reached at a useful rate
    let corner = rng.chance(0.04);
    let sizes = if corner && rng.chance(0.7) { HUGE } else { sizes };
    // "giant" runs (1 in 400, decided by a hash so that all other scenarios keep their
    // streams): one dimension far beyond the ordinary bounds, where size thresholds of
    // blocked / chunked / "switch to another path above N" code live (64 columns, 64
    // right-hand sides, 2^16 matrix elements): 1 = 65-80 nonlinear parameters,
    // 2 = 64-130 right-hand sides, 3 = >= 65536 elements in the basis matrix
    let gh = crate::prng::mix(seed, "giant", index);
    // checks with few runs per batch (C09 enumerates every call position of each scenario,
    // C17 every closure) draw the class more often so that a quick batch still contains some
    let giant_one_in = match property {
        "C09" => 100,
        "C17" => 200,
        _ => 400,
    };
    let giant = if gh % giant_one_in == 0 {
        if property == "C09" {
            // every call position is re-executed: 65+ parameters cost the most there
            [3u8, 3, 3, 3, 3, 3, 2, 2, 2, 1][((gh >> 16) % 10) as usize]
        } else {
            1 + ((gh >> 16) % 3) as u8
        }
    } else {
        0
    };
    let mut model = if giant == 1 {
        let mut m = gen_model(rng, kind, 40, 80);
        for _ in 0..400 {
            if m.nparams >= 65 {
                break;
            }
            m = gen_model(rng, kind, 40, 80);
        }
        m
    } else if giant == 3 {
        gen_model(rng, kind, 3, 3)
    } else if corner && rng.chance(0.5) {
        // many nonlinear parameters (up to 20: size thresholds such as 8 or 16 columns)
        let (mm, pp) = if rng.chance(0.4) { (10, 20) } else { (sizes.max_m.max(6), sizes.max_p.max(6)) };
        let want = if pp == 20 { 12 } else { 6 };
        let mut m = gen_model(rng, kind, mm, pp);
        for _ in 0..12 {
            if m.nparams >= want {
                break;
            }
            m = gen_model(rng, kind, mm, pp);
        }
        m
    } else {
        gen_model(rng, kind, sizes.max_m, sizes.max_p)
    };
    if corner && rng.chance(0.5) && model.funcs.len() < 9 {
        // exactly repeated basis function: rank-deficient at every alpha
        let j = rng.usize_in(0, model.funcs.len() - 1);
        let f = model.funcs[j].clone();
        model.funcs.push(f);
    }
    // the family that is sensitive to the sign of a zero parameter replaces a two-parameter
    // function in 1 scenario of 25 (hash-selected: no draw from the main stream)
    if crate::prng::mix(seed, "tanh-step", index) % 25 == 0 {
        if let Some(f) = model.funcs.iter_mut().find(|f| f.family.arity() == 2) {
            f.family = Family::TanhStep;
        }
    }
    let m = model.m();
    let p = model.nparams;
    let mrhs = if corner { rng.chance(0.7) } else { rng.chance(0.35) };
    let s = if mrhs {
        if corner && rng.chance(0.6) {
            rng.usize_in(8, 10)
        } else {
            rng.usize_in(1, sizes.max_s)
        }
    } else {
        1
    };
    // exact multiples of the usual block sizes are where remainder handling goes wrong
    let (mrhs, s) = if giant == 2 {
        (
            true,
            if rng.chance(0.35) {
                *rng.pick(&[16usize, 17, 32, 33, 64, 64, 65, 128])
            } else {
                // log-uniform over 11..130: also the gap between the ordinary bound (10) and 64
                (11.0 * (130.0f64 / 11.0).powf(rng.unit())) as usize
            },
        )
    } else {
        (mrhs, s)
    };
    let n_lo = (m + p + 1).min(sizes.max_n);
    let n = if giant == 1 {
        rng.usize_in(m + p + 1, m + p + 40)
    } else if giant == 2 {
        rng.usize_in((m + p + 1).min(24), 24)
    } else if giant == 3 {
        if rng.chance(0.3) {
            // exact multiples of a block size (remainder handling), from one block upwards
            4096 * *rng.pick(&[1usize, 2, 3, 4, 8, 16])
        } else if rng.chance(0.3) {
            // between the ordinary bound and 2^16 elements: 4k..30k samples
            rng.usize_in(4097, 30000)
        } else {
            65536 / m.max(1) + rng.usize_in(0, 2000)
        }
    } else if rng.chance(if corner { 0.25 } else { 0.03 }) {
        // square or wide basis matrix: as many basis functions as samples, or more
        rng.usize_in(1, m.max(1))
    } else {
        rng.usize_in(n_lo.max(2), sizes.max_n.max(n_lo + 1))
    };
    let wk = if corner && rng.chance(0.3) { WeightKind::Constant } else { pick_weight_kind(rng) };
    let d = gen_data(rng, &model, width, n, s, noise_rel, start, wk);
    let eps = match if corner && rng.chance(0.5) { 8 } else { rng.below(9) } {
        // exactly zero: only exactly vanishing singular values are truncated
        8 => Some(Fx(0.0)),
        0 => Some(Fx(rw(width, rng.log_uniform(-10.0, -3.0)))),
        1 => Some(Fx(rw(width, -rng.log_uniform(-10.0, -3.0)))),
        // coarse thresholds that truncate real singular values of the weighted basis
        2 => Some(Fx(rw(width, rng.log_uniform(-2.5, 0.5)))),
        _ => None,
    };
    let sc = Scenario {
        property: property.into(),
        seed,
        index,
        variant: String::new(),
        width,
        parallel,
        mrhs,
        model,
        x: fxs(&d.x),
        y: d.y.iter().map(|c| fxs(c)).collect(),
        weights: d.weights.as_ref().map(|w| fxs(w)),
        eps,
        alpha0: fxs(&d.alpha0),
        opt: gen_opt(rng, width),
        ops: vec![],
        faults: vec![],
        sched: gen_sched(rng, parallel, false),
        heap_fill: *rng.pick(&[0x00u8, 0xFF, 0xA5, 0x7F, 0x80]),
        builder_order: if rng.chance(0.5) { 0 } else { rng.below(6) as u8 },
    };
    let mut sc = sc;
    // a positive truncation threshold far below machine epsilon, in half of the cases together
    // with weights so small that every singular value of the weighted basis lies between the
    // two (1 scenario in 40, hash-selected): nothing may be truncated
    let th = crate::prng::mix(seed, "tiny-epsilon", index);
    if th % 40 == 0 {
        let u1 = ((th >> 8) % 1000) as f64 / 1000.0;
        let u2 = ((th >> 24) % 1000) as f64 / 1000.0;
        let (e_lo, e_hi, w_lo, w_hi) = match width {
            Width::F64 => (-60.0, -30.0, -25.0, -17.0),
            Width::F32 => (-34.0, -22.0, -14.0, -9.0),
        };
        sc.eps = Some(Fx(rw(width, 10f64.powf(e_lo + (e_hi - e_lo) * u1))));
        if (th >> 40) % 2 == 0 {
            let c = rw(width, 10f64.powf(w_lo + (w_hi - w_lo) * u2));
            sc.weights = Some(vec![Fx(c); sc.x.len()]);
        }
    }
    if giant != 0 {
        // keep one giant scenario affordable: few optimizer iterations
        sc.opt.patience = sc.opt.patience.min(3);
    }
    // repeated setter calls (see AnyProb::build), drawn without touching the main stream:
    // 1 scenario in 8 calls weights and/or observations twice
    let h = crate::prng::mix(seed, "builder-repeats", index);
    if h % 8 == 0 {
        sc.builder_order += 6 * (1 + ((h >> 8) % 3) as u8);
    }
    (sc, d)
}
