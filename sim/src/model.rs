//! Simulated models: the environment side of seams S1 (trait) and S2 (closures).

use crate::ctl::Ctl;
use crate::refmath;
use crate::sc::{hash_bits, Sc};
use crate::spec::{BadValue, CallKind, Family, FaultAction, ModelSpec};
use nalgebra::{DMatrix, DVector, Dyn, OVector};
use std::sync::Arc;
use varpro::model::builder::SeparableModelBuilder;
use varpro::model::SeparableModel;
use varpro::prelude::SeparableNonlinearModel;

#[derive(Debug, Clone, PartialEq, Eq)]
pub struct SimError(pub String);
impl std::fmt::Display for SimError {
    fn fmt(&self, f: &mut std::fmt::Formatter<'_>) -> std::fmt::Result {
        write!(f, "simulated model failure: {}", self.0)
    }
}
impl std::error::Error for SimError {}

fn bad<T: Sc>(b: BadValue) -> T {
    match b {
        BadValue::Nan => T::of(f64::NAN),
        BadValue::PosInf => T::of(f64::INFINITY),
        BadValue::NegInf => T::of(f64::NEG_INFINITY),
    }
}

/// VPSIM_TRACE=1: print every model call with its parameter values (debugging aid; draws
/// nothing from the PRNG and touches no clock)
pub static TRACE: std::sync::atomic::AtomicBool = std::sync::atomic::AtomicBool::new(false);

fn trace<T: Sc>(what: &str, a: &[T]) {
    if TRACE.load(std::sync::atomic::Ordering::Relaxed) {
        eprintln!("  model call {what} alpha={:?}", a.iter().map(|v| v.f()).collect::<Vec<_>>());
    }
}

fn ahash<T: Sc>(a: &[T]) -> u64 {
    let b: Vec<u64> = a.iter().map(|v| v.bits()).collect();
    hash_bits(&b)
}

/// Hand-written model: implements the trait directly over `refmath`.
#[derive(Clone)]
pub struct SimModel<T: Sc> {
    pub spec: Arc<ModelSpec>,
    pub x: DVector<T>,
    pub alpha: DVector<T>,
    pub ctl: Arc<Ctl>,
    /// C06 twin: row i of every matrix this model returns is multiplied by row_scale[i]
    pub row_scale: Option<Arc<Vec<T>>>,
}

fn scale_rows<T: Sc>(m: &mut DMatrix<T>, s: &Option<Arc<Vec<T>>>) {
    if let Some(s) = s {
        for j in 0..m.ncols() {
            for i in 0..m.nrows().min(s.len()) {
                m[(i, j)] = s[i] * m[(i, j)];
            }
        }
    }
}

impl<T: Sc> SimModel<T> {
    pub fn new(spec: Arc<ModelSpec>, x: DVector<T>, alpha: DVector<T>, ctl: Arc<Ctl>) -> Self {
        SimModel {
            spec,
            x,
            alpha,
            ctl,
            row_scale: None,
        }
    }
}

impl<T: Sc> SeparableNonlinearModel for SimModel<T> {
    type ScalarType = T;
    type Error = SimError;

    fn parameter_count(&self) -> usize {
        self.spec.nparams
    }
    fn base_function_count(&self) -> usize {
        self.spec.m()
    }
    fn output_len(&self) -> usize {
        self.x.len()
    }

    fn set_params(&mut self, parameters: OVector<T, Dyn>) -> Result<(), SimError> {
        if parameters.len() != self.spec.nparams {
            return Err(SimError(format!(
                "expected {} parameters, got {}",
                self.spec.nparams,
                parameters.len()
            )));
        }
        trace("set_params", parameters.as_slice());
        let fault = self
            .ctl
            .call(CallKind::SetParams, ahash(parameters.as_slice()));
        match fault {
            Some(FaultAction::FailAfterMutate) => {
                self.alpha = parameters;
                Err(SimError("set_params (after mutating)".into()))
            }
            Some(_) => {
                if self.spec.store_then_fail {
                    self.alpha = parameters;
                }
                Err(SimError("set_params".into()))
            }
            None => {
                self.alpha = parameters;
                Ok(())
            }
        }
    }

    fn params(&self) -> OVector<T, Dyn> {
        self.alpha.clone()
    }

    fn eval(&self) -> Result<DMatrix<T>, SimError> {
        self.ctl.sched_point();
        trace("eval", self.alpha.as_slice());
        let fault = self.ctl.call(CallKind::Eval, ahash(self.alpha.as_slice()));
        let out = match fault {
            Some(FaultAction::NonFinite(b, cell)) => {
                let mut m = refmath::phi(&self.spec, &self.x, self.alpha.as_slice());
                let len = m.len();
                m.as_mut_slice()[cell % len] = bad::<T>(b);
                Ok(m)
            }
            Some(_) => Err(SimError("eval".into())),
            None => {
                let mut m = refmath::phi(&self.spec, &self.x, self.alpha.as_slice());
                scale_rows(&mut m, &self.row_scale);
                Ok(m)
            }
        };
        self.ctl.sched_point();
        out
    }

    fn eval_partial_deriv(&self, k: usize) -> Result<DMatrix<T>, SimError> {
        self.ctl.sched_point();
        if k >= self.spec.nparams {
            return Err(SimError(format!("derivative index {k} out of bounds")));
        }
        let fault = self
            .ctl
            .call(CallKind::Deriv(k), ahash(self.alpha.as_slice()));
        let out = match fault {
            Some(FaultAction::NonFinite(b, cell)) => {
                let mut m = refmath::dphi(&self.spec, k, &self.x, self.alpha.as_slice());
                let len = m.len();
                m.as_mut_slice()[cell % len] = bad::<T>(b);
                Ok(m)
            }
            Some(_) => Err(SimError(format!("eval_partial_deriv({k})"))),
            None => {
                let mut m = refmath::dphi(&self.spec, k, &self.x, self.alpha.as_slice());
                scale_rows(&mut m, &self.row_scale);
                Ok(m)
            }
        };
        self.ctl.sched_point();
        out
    }
}

// ---------------------------------------------------------------------------------------
// builder-made models (seam S2)
// ---------------------------------------------------------------------------------------

pub fn pname(i: usize) -> String {
    format!("p{i}")
}

#[derive(Clone, Copy)]
enum What {
    F,
    D(usize),
}

/// what a closure of basis function `fam` does for own-parameter values `p`
fn closure_body<T: Sc>(
    ctl: &Ctl,
    kind: CallKind,
    fam: Family,
    what: What,
    x: &DVector<T>,
    p: &[T],
    row_scale: &Option<Arc<Vec<T>>>,
) -> DVector<T> {
    ctl.sched_point();
    trace(&format!("{kind:?}"), p);
    let fault = ctl.call(kind, ahash(p));
    let n = x.len();
    let compute = |len: usize| -> DVector<T> {
        DVector::from_iterator(
            len,
            (0..len).map(|i| {
                let xi = if n == 0 { T::of(0.0) } else { x[i % n] };
                let v = match what {
                    What::F => refmath::f_eval(fam, xi, p),
                    What::D(l) => refmath::f_deriv(fam, xi, p, l),
                };
                match row_scale {
                    Some(s) if i < s.len() => s[i] * v,
                    _ => v,
                }
            }),
        )
    };
    let out = match fault {
        None => compute(n),
        Some(FaultAction::WrongLen(l)) => compute(l),
        Some(FaultAction::NonFinite(b, cell)) => {
            let mut v = compute(n);
            if n > 0 {
                v[cell % n] = bad::<T>(b);
            }
            v
        }
        // the only way a closure can "fail" is by violating the length contract
        Some(_) => compute(n + 1),
    };
    ctl.sched_point();
    out
}

/// Build the model described by `spec` through the public `SeparableModelBuilder`.
/// Parameter names are p0..p{P-1}.
pub fn build_separable<T: Sc>(
    spec: &ModelSpec,
    x: DVector<T>,
    alpha0: Vec<T>,
    ctl: Arc<Ctl>,
    row_scale: Option<Arc<Vec<T>>>,
) -> Result<SeparableModel<T>, String> {
    let names: Vec<String> = (0..spec.nparams).map(pname).collect();
    let mut b = SeparableModelBuilder::<T>::new(names);
    for (j, f) in spec.funcs.iter().enumerate() {
        let fam = f.family;
        let fnames: Vec<String> = f.params.iter().map(|i| pname(*i)).collect();
        match fam.arity() {
            0 => {
                let c = ctl.clone();
                let rs = row_scale.clone();
                b = b.invariant_function(move |x: &DVector<T>| {
                    closure_body(&c, CallKind::Func(j), fam, What::F, x, &[], &rs)
                });
            }
            1 => {
                let c = ctl.clone();
                let rs = row_scale.clone();
                b = b.function(fnames.clone(), move |x: &DVector<T>, a: T| {
                    closure_body(&c, CallKind::Func(j), fam, What::F, x, &[a], &rs)
                });
                for (l, k) in f.params.iter().enumerate() {
                    let c = ctl.clone();
                let rs = row_scale.clone();
                    let k = *k;
                    b = b.partial_deriv(pname(k), move |x: &DVector<T>, a: T| {
                        closure_body(&c, CallKind::FuncDeriv(j, k), fam, What::D(l), x, &[a], &rs)
                    });
                }
            }
            2 => {
                let c = ctl.clone();
                let rs = row_scale.clone();
                b = b.function(fnames.clone(), move |x: &DVector<T>, a: T, bb: T| {
                    closure_body(&c, CallKind::Func(j), fam, What::F, x, &[a, bb], &rs)
                });
                for (l, k) in f.params.iter().enumerate() {
                    let c = ctl.clone();
                let rs = row_scale.clone();
                    let k = *k;
                    b = b.partial_deriv(pname(k), move |x: &DVector<T>, a: T, bb: T| {
                        closure_body(&c, CallKind::FuncDeriv(j, k), fam, What::D(l), x, &[a, bb], &rs)
                    });
                }
            }
            3 => {
                let c = ctl.clone();
                let rs = row_scale.clone();
                b = b.function(fnames.clone(), move |x: &DVector<T>, a: T, bb: T, cc: T| {
                    closure_body(&c, CallKind::Func(j), fam, What::F, x, &[a, bb, cc], &rs)
                });
                for (l, k) in f.params.iter().enumerate() {
                    let c = ctl.clone();
                let rs = row_scale.clone();
                    let k = *k;
                    b = b.partial_deriv(pname(k), move |x: &DVector<T>, a: T, bb: T, cc: T| {
                        closure_body(
                            &c,
                            CallKind::FuncDeriv(j, k),
                            fam,
                            What::D(l),
                            x,
                            &[a, bb, cc],
                            &rs,
                        )
                    });
                }
            }
            4 => {
                let c = ctl.clone();
                let rs = row_scale.clone();
                b = b.function(
                    fnames.clone(),
                    move |x: &DVector<T>, a: T, bb: T, cc: T, dd: T| {
                        closure_body(&c, CallKind::Func(j), fam, What::F, x, &[a, bb, cc, dd], &rs)
                    },
                );
                for (l, k) in f.params.iter().enumerate() {
                    let c = ctl.clone();
                    let rs = row_scale.clone();
                    let k = *k;
                    b = b.partial_deriv(
                        pname(k),
                        move |x: &DVector<T>, a: T, bb: T, cc: T, dd: T| {
                            closure_body(
                                &c,
                                CallKind::FuncDeriv(j, k),
                                fam,
                                What::D(l),
                                x,
                                &[a, bb, cc, dd],
                                &rs,
                            )
                        },
                    );
                }
            }
            5 => {
                let c = ctl.clone();
                let rs = row_scale.clone();
                b = b.function(
                    fnames.clone(),
                    move |x: &DVector<T>, a: T, bb: T, cc: T, dd: T, ee: T| {
                        closure_body(&c, CallKind::Func(j), fam, What::F, x, &[a, bb, cc, dd, ee], &rs)
                    },
                );
                for (l, k) in f.params.iter().enumerate() {
                    let c = ctl.clone();
                    let rs = row_scale.clone();
                    let k = *k;
                    b = b.partial_deriv(
                        pname(k),
                        move |x: &DVector<T>, a: T, bb: T, cc: T, dd: T, ee: T| {
                            closure_body(
                                &c,
                                CallKind::FuncDeriv(j, k),
                                fam,
                                What::D(l),
                                x,
                                &[a, bb, cc, dd, ee],
                                &rs,
                            )
                        },
                    );
                }
            }
            _ => return Err("unsupported arity".into()),
        }
    }
    b.independent_variable(x)
        .initial_parameters(alpha0)
        .build()
        .map_err(|e| format!("{e:?}"))
}
