//! Orchestrator: single-threaded worker processes, hang watchdog, aggregation, replay files,
//! known findings and the VIOLATION / KNOWN-FINDING protocol.

use crate::ctl;
use crate::evidence;
use crate::props;
use crate::report::{RunReport, Violation};
use crate::run::install_panic_hook;
use crate::shrink;
use crate::spec::Scenario;
use serde::{Deserialize, Serialize};
use std::collections::{BTreeMap, BTreeSet, VecDeque};
use std::io::{BufRead, BufReader, Write};
use std::process::{Command, Stdio};
use std::sync::atomic::Ordering;
use std::sync::{Arc, Mutex};
use std::time::{Duration, Instant};

pub fn verif_root() -> String {
    std::env::var("VERIF_ROOT").unwrap_or_else(|_| "/verif".into())
}

pub fn seed_from_env() -> u64 {
    std::env::var("VERIF_SEED")
        .ok()
        .and_then(|s| s.trim().parse::<i64>().ok())
        .map(|v| v as u64)
        .unwrap_or(1)
}

fn hang_secs() -> f64 {
    std::env::var("VPSIM_HANG_SECS")
        .ok()
        .and_then(|s| s.parse().ok())
        .unwrap_or(20.0)
}

#[derive(Serialize, Deserialize, Clone, Debug)]
pub struct ReplayFile {
    pub property: String,
    pub class: String,
    pub site: String,
    pub detail: String,
    pub seed: u64,
    pub tier: String,
    pub minimised: bool,
    /// build profile the violation was observed under
    #[serde(default)]
    pub profile: String,
    pub scenario: Scenario,
}

#[derive(Serialize, Deserialize, Clone, Debug, Default)]
pub struct KnownFindings {
    #[serde(default)]
    pub findings: Vec<KnownFinding>,
    #[serde(default)]
    pub fixed: Vec<String>,
}

#[derive(Serialize, Deserialize, Clone, Debug)]
pub struct KnownFinding {
    pub property: String,
    pub class: String,
    pub site: String,
    pub what: String,
    /// replay file (relative to /verif) that reproduces the finding on the unchanged tree
    #[serde(default)]
    pub replay: Option<String>,
}

pub fn load_known() -> KnownFindings {
    let p = format!("{}/known_findings.json", verif_root());
    match std::fs::read_to_string(&p) {
        Ok(s) => serde_json::from_str(&s).unwrap_or_default(),
        Err(_) => KnownFindings::default(),
    }
}

// ---------------------------------------------------------------------------------------
// worker
// ---------------------------------------------------------------------------------------

fn spawn_watchdog(current_index: Arc<Mutex<u64>>) {
    let limit = hang_secs();
    std::thread::spawn(move || {
        let mut last = ctl::HEARTBEAT.load(Ordering::Relaxed);
        let mut stalled = 0.0f64;
        loop {
            std::thread::sleep(Duration::from_millis(250));
            let now = ctl::HEARTBEAT.load(Ordering::Relaxed);
            if now != last {
                last = now;
                stalled = 0.0;
                continue;
            }
            stalled += 0.25;
            if stalled >= limit {
                let idx = *current_index.lock().unwrap_or_else(|e| e.into_inner());
                let rec = serde_json::json!({
                    "index": idx,
                    "phase": ctl::phase(),
                    "scenario": ctl::current(),
                });
                let out = std::io::stdout();
                let mut l = out.lock();
                let _ = writeln!(l, "H {}", rec);
                let _ = l.flush();
                std::process::exit(3);
            }
        }
    });
}

pub fn cmd_worker(a: &[String]) -> i32 {
    if a.len() < 5 {
        eprintln!("worker <PROP> <tier> <seed> <start> <count>");
        return 2;
    }
    let prop = a[0].clone();
    let thorough = a[1] == "thorough";
    let seed: u64 = a[2].parse().unwrap_or(1);
    let start: u64 = a[3].parse().unwrap_or(0);
    let count: u64 = a[4].parse().unwrap_or(0);
    install_panic_hook();
    let cur = Arc::new(Mutex::new(start));
    spawn_watchdog(cur.clone());
    let out = std::io::stdout();
    for idx in start..start + count {
        *cur.lock().unwrap() = idx;
        {
            let mut l = out.lock();
            let _ = writeln!(l, "B {idx}");
            let _ = l.flush();
        }
        let Some(sc) = props::generate(&prop, seed, idx, thorough) else {
            eprintln!("unknown property {prop}");
            return 2;
        };
        ctl::set_current(&sc);
        let mut rep = match crate::run::guarded(|| props::execute(&sc)) {
            Ok(Some(r)) => r,
            Ok(None) => return 2,
            Err(p) => {
                // a panic that escaped the per-operation guards: harness or library
                let mut r = RunReport::default();
                r.violate(
                    &sc,
                    "PANIC",
                    &format!("driver@{}", crate::report::panic_site(&p)),
                    p,
                );
                r
            }
        };
        rep.index = idx;
        let mut l = out.lock();
        let _ = writeln!(l, "R {}", serde_json::to_string(&rep).unwrap());
        let _ = l.flush();
    }
    let real = rayon_core::sim::REAL_POOL_ENTRIES.load(Ordering::Relaxed);
    let mut l = out.lock();
    let _ = writeln!(l, "E {real}");
    0
}

// ---------------------------------------------------------------------------------------
// single-scenario commands
// ---------------------------------------------------------------------------------------

pub fn cmd_gen(a: &[String]) -> i32 {
    if a.len() < 4 {
        eprintln!("gen <PROP> <tier> <seed> <index>");
        return 2;
    }
    match props::generate(
        &a[0],
        a[2].parse().unwrap_or(1),
        a[3].parse().unwrap_or(0),
        a[1] == "thorough",
    ) {
        Some(sc) => {
            println!("{}", serde_json::to_string_pretty(&sc).unwrap());
            0
        }
        None => 2,
    }
}

/// execute a scenario file (plain Scenario JSON) and print the report; used by the shrinker
/// for classes that can take the process down
pub fn cmd_exec(a: &[String]) -> i32 {
    let Some(path) = a.first() else { return 2 };
    let Ok(s) = std::fs::read_to_string(path) else {
        return 2;
    };
    let sc: Scenario = match serde_json::from_str(&s) {
        Ok(sc) => sc,
        Err(e) => {
            eprintln!("malformed scenario: {e}");
            return 2;
        }
    };
    install_panic_hook();
    if std::env::var("VPSIM_TRACE").is_ok() {
        crate::model::TRACE.store(true, Ordering::Relaxed);
    }
    let cur = Arc::new(Mutex::new(sc.index));
    spawn_watchdog(cur);
    ctl::set_current(&sc);
    match props::execute(&sc) {
        Some(rep) => {
            println!("R {}", serde_json::to_string(&rep).unwrap());
            0
        }
        None => 2,
    }
}

/// Execute a scenario in a child process; a hang or crash becomes a violation record.
pub fn exe_for(profile: &str) -> Result<std::path::PathBuf, String> {
    if profile == "release" {
        let p = std::path::PathBuf::from(format!("{}/sim/target/release/vpsim", verif_root()));
        if p.exists() {
            return Ok(p);
        }
        return Err(format!("release binary missing: {}", p.display()));
    }
    std::env::current_exe().map_err(|e| e.to_string())
}

pub fn exec_in_child(sc: &Scenario, profile: &str) -> Result<RunReport, String> {
    let dir = std::env::temp_dir();
    let path = dir.join(format!(
        "vpsim-exec-{}-{}.json",
        std::process::id(),
        ctl::HEARTBEAT.fetch_add(1, Ordering::Relaxed)
    ));
    std::fs::write(&path, serde_json::to_string(sc).unwrap()).map_err(|e| e.to_string())?;
    let exe = exe_for(profile)?;
    let out = Command::new(exe)
        .arg("exec")
        .arg(&path)
        .stdin(Stdio::null())
        .stderr(Stdio::null())
        .output()
        .map_err(|e| e.to_string())?;
    let _ = std::fs::remove_file(&path);
    let text = String::from_utf8_lossy(&out.stdout);
    let mut rep: Option<RunReport> = None;
    let mut hang: Option<serde_json::Value> = None;
    for line in text.lines() {
        if let Some(r) = line.strip_prefix("R ") {
            rep = serde_json::from_str(r).ok();
        } else if let Some(h) = line.strip_prefix("H ") {
            hang = serde_json::from_str(h).ok();
        }
    }
    if let Some(r) = rep {
        return Ok(r);
    }
    let mut r = RunReport::default();
    if let Some(h) = hang {
        let phase = h["phase"].as_str().unwrap_or("?").to_string();
        let sub: Option<Scenario> = serde_json::from_value(h["scenario"].clone()).ok();
        let s = sub.unwrap_or_else(|| sc.clone());
        r.violate(
            &s,
            "HANG",
            &phase,
            format!("no progress for {} s in phase {}", hang_secs(), phase),
        );
        return Ok(r);
    }
    if !out.status.success() {
        r.violate(
            sc,
            "CRASH",
            &format!("{:?}", out.status.code()),
            format!("worker died: {:?}", out.status),
        );
        return Ok(r);
    }
    Err("child produced no report".into())
}

pub fn cmd_replay(a: &[String]) -> i32 {
    let Some(path) = a.first() else {
        eprintln!("replay <file>");
        return 2;
    };
    let Ok(s) = std::fs::read_to_string(path) else {
        eprintln!("cannot read {path}");
        return 2;
    };
    let rf: ReplayFile = match serde_json::from_str(&s) {
        Ok(r) => r,
        Err(e) => {
            eprintln!("malformed replay file: {e}");
            return 2;
        }
    };
    println!(
        "replaying property={} class={} site={} (seed {} tier {})",
        rf.property, rf.class, rf.site, rf.seed, rf.tier
    );
    match exec_in_child(&rf.scenario, &rf.profile) {
        Ok(rep) => {
            let mut same = false;
            for v in &rep.violations {
                println!("  observed: {} @ {} — {}", v.class, v.site, v.detail);
                if v.class == rf.class && v.site == rf.site {
                    same = true;
                }
            }
            if same {
                println!("VIOLATION property={} replay={}", rf.property, path);
                println!("reproduced: {} @ {}", rf.class, rf.site);
                1
            } else if rep.violations.is_empty() {
                println!("not reproduced: the scenario passes on this tree");
                0
            } else {
                println!("VIOLATION property={} replay={}", rf.property, path);
                println!("a different violation than recorded was observed");
                1
            }
        }
        Err(e) => {
            eprintln!("harness error: {e}");
            2
        }
    }
}

pub fn cmd_shrink(a: &[String]) -> i32 {
    let Some(path) = a.first() else { return 2 };
    let Ok(s) = std::fs::read_to_string(path) else {
        return 2;
    };
    let Ok(mut rf) = serde_json::from_str::<ReplayFile>(&s) else {
        return 2;
    };
    install_panic_hook();
    let v = Violation {
        property: rf.property.clone(),
        class: rf.class.clone(),
        site: rf.site.clone(),
        detail: rf.detail.clone(),
        scenario: rf.scenario.clone(),
        profile: rf.profile.clone(),
    };
    let (m, tried) = shrink::minimise(&v, 400, Duration::from_secs(60));
    eprintln!("shrink: {tried} candidates");
    rf.scenario = m.scenario;
    rf.detail = m.detail;
    rf.minimised = true;
    println!("{}", serde_json::to_string_pretty(&rf).unwrap());
    0
}

/// print the digest of runs [start, start+count) — the determinism self-test diffs these
pub fn cmd_digest(a: &[String]) -> i32 {
    if a.len() < 5 {
        eprintln!("digest <PROP> <tier> <seed> <start> <count>");
        return 2;
    }
    install_panic_hook();
    let thorough = a[1] == "thorough";
    let seed: u64 = a[2].parse().unwrap_or(1);
    let start: u64 = a[3].parse().unwrap_or(0);
    let count: u64 = a[4].parse().unwrap_or(0);
    for idx in start..start + count {
        let Some(sc) = props::generate(&a[0], seed, idx, thorough) else {
            return 2;
        };
        let rep = props::execute(&sc).unwrap();
        println!(
            "{idx} {:016x} ev={} ex={} viol={}",
            rep.digest,
            rep.events,
            rep.executions,
            rep.violations.len()
        );
    }
    0
}

// ---------------------------------------------------------------------------------------
// check
// ---------------------------------------------------------------------------------------

#[derive(Default)]
pub struct Agg {
    pub reports: u64,
    pub executions: u64,
    pub events: u64,
    pub probes: BTreeMap<String, u64>,
    pub signatures: BTreeSet<String>,
    pub nontrivial_runs: u64,
    pub samples: Vec<serde_json::Value>,
    pub violations: Vec<Violation>,
    pub real_pool_entries: u64,
    pub worker_restarts: u64,
    pub confirmed_hangs_or_crashes: u64,
    pub runs_skipped_after_hangs: u64,
}

struct Shared {
    queue: VecDeque<(u64, u64, &'static str)>,
    agg: Agg,
}

fn run_chunk(
    prop: &str,
    tier: &str,
    seed: u64,
    start: u64,
    count: u64,
    profile: &'static str,
    shared: &Arc<Mutex<Shared>>,
) -> Result<(), String> {
    let exe = exe_for(profile)?;
    let mut child = Command::new(exe)
        .args([
            "worker",
            prop,
            tier,
            &seed.to_string(),
            &start.to_string(),
            &count.to_string(),
        ])
        .stdin(Stdio::null())
        .stdout(Stdio::piped())
        .stderr(Stdio::inherit())
        .spawn()
        .map_err(|e| e.to_string())?;
    let stdout = child.stdout.take().ok_or("no stdout")?;
    let reader = BufReader::new(stdout);
    let mut begun: Option<u64> = None;
    let mut finished_all = false;
    let mut hang: Option<serde_json::Value> = None;
    for line in reader.lines() {
        let Ok(line) = line else { break };
        if let Some(b) = line.strip_prefix("B ") {
            begun = b.trim().parse().ok();
        } else if let Some(r) = line.strip_prefix("R ") {
            match serde_json::from_str::<RunReport>(r) {
                Ok(rep) => {
                    let mut g = shared.lock().unwrap();
                    let a = &mut g.agg;
                    a.reports += 1;
                    a.executions += rep.executions;
                    a.events += rep.events;
                    for (k, v) in &rep.probes {
                        *a.probes.entry(k.clone()).or_insert(0) += v;
                    }
                    let nontrivial = !rep.signatures.is_empty();
                    if nontrivial {
                        a.nontrivial_runs += 1;
                    }
                    for s in rep.signatures {
                        if a.signatures.len() < 2_000_000 {
                            a.signatures.insert(s);
                        }
                    }
                    if let Some(s) = rep.sample {
                        // samples shown in the evidence are non-trivial runs (one trivial one
                        // at most, so that the list is never empty)
                        if a.samples.len() < 6 && (nontrivial || a.samples.is_empty()) {
                            a.samples.push(s);
                        }
                    }
                    for mut v in rep.violations {
                        if a.violations.len() < 200 {
                            v.profile = profile.to_string();
                            a.violations.push(v);
                        }
                    }
                    *a.probes.entry(format!("runs_profile_{profile}")).or_insert(0) += 1;
                    begun = None;
                }
                Err(e) => return Err(format!("malformed worker report: {e}")),
            }
        } else if let Some(e) = line.strip_prefix("E ") {
            finished_all = true;
            let n: u64 = e.trim().parse().unwrap_or(0);
            shared.lock().unwrap().agg.real_pool_entries += n;
        } else if let Some(h) = line.strip_prefix("H ") {
            hang = serde_json::from_str(h).ok();
        }
    }
    let status = child.wait().map_err(|e| e.to_string())?;
    if finished_all && status.success() {
        return Ok(());
    }
    if status.code() == Some(2) {
        return Err("worker reported a harness error".into());
    }
    // the worker died or hung inside run `begun`
    let Some(idx) = begun else {
        return Err(format!("worker ended unexpectedly: {status:?}"));
    };
    let thorough = tier == "thorough";
    let base = props::generate(prop, seed, idx, thorough).ok_or("unknown property")?;
    let (class, site, sub) = match &hang {
        Some(h) => (
            "HANG".to_string(),
            h["phase"].as_str().unwrap_or("?").to_string(),
            serde_json::from_value::<Scenario>(h["scenario"].clone()).ok(),
        ),
        None => ("CRASH".to_string(), format!("{:?}", status.code()), None),
    };
    let scen = sub.unwrap_or(base);
    // confirm in isolation before reporting
    let confirmed = match exec_in_child(&scen, profile) {
        Ok(rep) => rep
            .violations
            .iter()
            .find(|v| v.class == class)
            .cloned()
            .map(|mut v| {
                v.profile = profile.to_string();
                v
            }),
        Err(_) => None,
    };
    {
        let mut g = shared.lock().unwrap();
        g.agg.worker_restarts += 1;
        match confirmed {
            Some(v) => {
                g.agg.violations.push(v);
                g.agg.confirmed_hangs_or_crashes += 1;
                // every hang costs two watchdog periods: once a few are confirmed the verdict
                // is settled, stop exploring instead of sitting through hundreds of them
                if g.agg.confirmed_hangs_or_crashes >= 4 {
                    let dropped: u64 = g.queue.iter().map(|c| c.1).sum();
                    g.queue.clear();
                    g.agg.runs_skipped_after_hangs += dropped;
                }
            }
            None => {
                *g.agg
                    .probes
                    .entry(format!("unconfirmed_{}", class.to_lowercase()))
                    .or_insert(0) += 1;
                let _ = site;
            }
        }
        // remainder of the slice
        let next = idx + 1;
        if next < start + count && g.agg.confirmed_hangs_or_crashes < 4 {
            g.queue.push_front((next, start + count - next, profile));
        }
    }
    Ok(())
}

pub fn cmd_check(a: &[String]) -> i32 {
    if a.len() < 2 {
        eprintln!("check <PROP> <quick|thorough> [--runs N] [--workers W]");
        return 2;
    }
    let prop = a[0].clone();
    let tier = a[1].clone();
    if tier != "quick" && tier != "thorough" {
        eprintln!("tier must be quick or thorough");
        return 2;
    }
    let thorough = tier == "thorough";
    let mut runs = props::default_runs(&prop, thorough);
    let mut workers: usize = if thorough { 16 } else { 16 };
    let mut i = 2;
    while i < a.len() {
        match a[i].as_str() {
            "--runs" => {
                runs = a.get(i + 1).and_then(|s| s.parse().ok()).unwrap_or(runs);
                i += 1;
            }
            "--workers" => {
                workers = a.get(i + 1).and_then(|s| s.parse().ok()).unwrap_or(workers);
                i += 1;
            }
            _ => {}
        }
        i += 1;
    }
    if !props::CLAIMED.contains(&prop.as_str()) {
        eprintln!("property {prop} is not claimed by this simulator");
        return 2;
    }
    let seed = seed_from_env();
    let t0 = Instant::now();
    println!("vpsim check property={prop} tier={tier} VERIF_SEED={seed} runs={runs} workers={workers}");
    install_panic_hook();

    let chunk = ((runs / (workers as u64 * 6)).max(1)).min(5_000);
    let mut queue = VecDeque::new();
    let profiles = props::profiles(&prop);
    let mut s = 0;
    while s < runs {
        let c = chunk.min(runs - s);
        for pr in profiles {
            queue.push_back((s, c, *pr));
        }
        s += c;
    }
    let runs = runs * profiles.len() as u64;
    let shared = Arc::new(Mutex::new(Shared {
        queue,
        agg: Agg::default(),
    }));
    let harness_err: Arc<Mutex<Option<String>>> = Arc::new(Mutex::new(None));
    let mut handles = vec![];
    for _ in 0..workers {
        let shared = shared.clone();
        let prop = prop.clone();
        let tier = tier.clone();
        let herr = harness_err.clone();
        handles.push(std::thread::spawn(move || loop {
            let job = { shared.lock().unwrap().queue.pop_front() };
            let Some((st, ct, pr)) = job else { break };
            if herr.lock().unwrap().is_some() {
                break;
            }
            if let Err(e) = run_chunk(&prop, &tier, seed, st, ct, pr, &shared) {
                *herr.lock().unwrap() = Some(e);
                break;
            }
        }));
    }
    for h in handles {
        let _ = h.join();
    }
    if let Some(e) = harness_err.lock().unwrap().clone() {
        eprintln!("HARNESS ERROR: {e}");
        return 2;
    }
    let mut g = shared.lock().unwrap();
    let agg = std::mem::take(&mut g.agg);
    drop(g);
    let explore_s = t0.elapsed().as_secs_f64();
    let mut agg_extra: Vec<Violation> = vec![];

    // ---- known findings: re-execute their recorded scenarios, so that every listed finding
    // that still reproduces is printed on every run, whatever the seed ----
    let known = load_known();
    let mut printed_known: BTreeSet<String> = BTreeSet::new();
    for f in known.findings.iter().filter(|f| f.property == prop) {
        let Some(rp) = &f.replay else { continue };
        let path = format!("{}/{}", verif_root(), rp);
        let Ok(txt) = std::fs::read_to_string(&path) else {
            eprintln!("HARNESS ERROR: known finding replay {path} is missing");
            return 2;
        };
        let Ok(rf) = serde_json::from_str::<ReplayFile>(&txt) else {
            eprintln!("HARNESS ERROR: known finding replay {path} is malformed");
            return 2;
        };
        match exec_in_child(&rf.scenario, &rf.profile) {
            Ok(rep) => {
                if rep.violations.iter().any(|v| v.class == f.class && v.site == f.site) {
                    let key = format!("{}|{}|{}", f.property, f.class, f.site);
                    if printed_known.insert(key) {
                        println!("KNOWN-FINDING: property={} {} @ {} — {} (reproduced from {})", f.property, f.class, f.site, f.what, rp);
                    }
                } else {
                    println!("note: known finding {} @ {} no longer reproduces from {} on this tree", f.class, f.site, rp);
                }
                for v in rep.violations {
                    if !(v.class == f.class && v.site == f.site) {
                        agg_extra.push(v);
                    }
                }
            }
            Err(e) => {
                eprintln!("HARNESS ERROR: cannot replay known finding: {e}");
                return 2;
            }
        }
    }
    // ---- violations: dedupe by key, minimise, write replay files, match known findings ----
    let mut by_key: BTreeMap<String, Violation> = BTreeMap::new();
    for v in agg.violations.iter().chain(agg_extra.iter()) {
        // a violation seen under both profiles is reported once, under "checked"
        let e = by_key.entry(v.key()).or_insert_with(|| v.clone());
        if v.profile != "release" {
            e.profile = v.profile.clone();
        }
    }
    let mut new_violations = 0;
    let t_shrink = std::time::Instant::now();
    let replay_dir = format!("{}/replays/{}", verif_root(), prop);
    let mut replay_paths = vec![];
    for (_k, v) in by_key.iter() {
        let is_known = known
            .findings
            .iter()
            .find(|f| f.property == v.property && f.class == v.class && f.site == v.site);
        if let Some(f) = is_known {
            if std::env::var("VPSIM_SAVE_KNOWN").is_ok() {
                // curation aid: keep a minimised replay of a violation that matches a known finding
                let (m, _) = shrink::minimise(v, 400, Duration::from_secs(60));
                let _ = std::fs::create_dir_all(&replay_dir);
                let fname = format!("{}/known-{}-{}.json", replay_dir, m.class, sanitize(&m.site));
                let rf = ReplayFile {
                    property: m.property.clone(),
                    class: m.class.clone(),
                    site: m.site.clone(),
                    detail: m.detail.clone(),
                    seed,
                    tier: tier.clone(),
                    minimised: true,
                    profile: v.profile.clone(),
                    scenario: m.scenario.clone(),
                };
                let _ = std::fs::write(&fname, serde_json::to_string_pretty(&rf).unwrap());
                println!("  (saved {fname}: {})", m.detail);
            }
            if printed_known.insert(v.key()) {
                println!(
                    "KNOWN-FINDING: property={} {} @ {} — {}",
                    v.property, v.class, v.site, f.what
                );
            }
            continue;
        }
        new_violations += 1;
        // minimisation budget per batch: a defect that shows at many sites must not turn a
        // quick check into an hour of shrinking - the first 24 violations get the full budget
        // (400 candidates / 60 s), later ones a small one, and after 10 minutes in total the
        // remaining replay files are written un-minimised (they replay all the same)
        let spent = t_shrink.elapsed();
        let (cands, secs) = if spent > Duration::from_secs(600) {
            (0, 0)
        } else if new_violations > 24 {
            (40, 5)
        } else {
            (400, 60)
        };
        let (m, tried) = if cands == 0 { (v.clone(), 0) } else { shrink::minimise(v, cands, Duration::from_secs(secs)) };
        let _ = std::fs::create_dir_all(&replay_dir);
        let fname = format!(
            "{}/{}-{}-{}.json",
            replay_dir,
            seed,
            m.class,
            sanitize(&m.site)
        );
        let rf = ReplayFile {
            property: m.property.clone(),
            class: m.class.clone(),
            site: m.site.clone(),
            detail: m.detail.clone(),
            seed,
            tier: tier.clone(),
            minimised: tried > 0,
            profile: v.profile.clone(),
            scenario: m.scenario.clone(),
        };
        if let Err(e) = std::fs::write(&fname, serde_json::to_string_pretty(&rf).unwrap()) {
            eprintln!("HARNESS ERROR: cannot write replay file: {e}");
            return 2;
        }
        println!("VIOLATION property={} replay={}", m.property, fname);
        println!(
            "  class={} site={} profile={} (found at run index {}, minimised over {} candidates)",
            m.class, m.site, if v.profile.is_empty() { "checked" } else { &v.profile }, v.scenario.index, tried
        );
        println!("  {}", m.detail);
        println!("  minimal trace: {}", shrink::describe(&m.scenario));
        replay_paths.push(fname);
    }
    let wall = t0.elapsed().as_secs_f64();
    if let Err(e) = evidence::write(
        &prop,
        &tier,
        seed,
        &agg,
        wall,
        explore_s,
        new_violations,
        printed_known.len(),
        workers,
    ) {
        eprintln!("HARNESS ERROR: cannot write evidence: {e}");
        return 2;
    }
    println!(
        "done: runs={} executions={} model_events={} distinct_nontrivial={} wall={:.1}s violations={} known={}",
        agg.reports,
        agg.executions,
        agg.events,
        agg.signatures.len(),
        wall,
        new_violations,
        printed_known.len()
    );
    if agg.real_pool_entries > 0 {
        println!(
            "note: the library entered the REAL rayon pool {} times (rayon::scope / spawn / an own thread pool): that work ran on real threads outside the simulated schedule; verdicts of comparisons stay valid, replay of a schedule-dependent failure found there is not guaranteed",
            agg.real_pool_entries
        );
    }
    if agg.reports != runs {
        // runs lost to a hang/crash are accounted for by their violation (or by the
        // unconfirmed_* probe); anything else is a harness error
        if agg.worker_restarts == 0 {
            eprintln!("HARNESS ERROR: {} of {} runs reported", agg.reports, runs);
            return 2;
        }
        println!(
            "note: {} of {} runs reported ({} workers lost to hangs/crashes, {} runs skipped after the 4th confirmed one)",
            agg.reports, runs, agg.worker_restarts, agg.runs_skipped_after_hangs
        );
    }
    if new_violations > 0 {
        1
    } else {
        0
    }
}

fn sanitize(s: &str) -> String {
    s.chars()
        .map(|c| if c.is_ascii_alphanumeric() || c == '.' || c == '-' { c } else { '_' })
        .collect::<String>()
        .chars()
        .take(60)
        .collect()
}
