//! Minimisation of a failing scenario, keeping the violation (class, site) fixed.

use crate::orchestrator::exec_in_child;
use crate::props;
use crate::props::common::op_name;
use crate::report::Violation;
use crate::spec::*;
use std::time::{Duration, Instant};

fn still_fails(v: &Violation, cand: &Scenario) -> Option<Violation> {
    let dangerous = v.class == "HANG" || v.class == "CRASH" || v.profile == "release";
    let rep = if dangerous {
        exec_in_child(cand, &v.profile).ok()?
    } else {
        match crate::run::guarded(|| props::execute(cand)) {
            Ok(Some(r)) => r,
            _ => return None,
        }
    };
    rep.violations
        .into_iter()
        .find(|w| w.class == v.class && w.site == v.site)
        .map(|mut w| {
            w.profile = v.profile.clone();
            w
        })
}

/// candidate simplifications of a scenario, most aggressive first
fn candidates(sc: &Scenario) -> Vec<Scenario> {
    let mut out = vec![];
    // drop operations (suffix first, then single ops)
    if sc.ops.len() > 1 {
        let mut c = sc.clone();
        c.ops.truncate(sc.ops.len() / 2);
        out.push(c);
    }
    for i in (0..sc.ops.len()).rev() {
        let mut c = sc.clone();
        c.ops.remove(i);
        out.push(c);
    }
    // drop faults, make them transient
    for i in 0..sc.faults.len() {
        let mut c = sc.clone();
        c.faults.remove(i);
        out.push(c);
    }
    for i in 0..sc.faults.len() {
        if sc.faults[i].persist != Persist::Once {
            let mut c = sc.clone();
            c.faults[i].persist = Persist::Once;
            out.push(c);
        }
    }
    // single right-hand side
    if sc.y.len() > 1 {
        let mut c = sc.clone();
        c.y.truncate(1);
        out.push(c);
    }
    if sc.mrhs && sc.y.len() == 1 {
        let mut c = sc.clone();
        c.mrhs = false;
        out.push(c);
    }
    // fewer samples
    let n = sc.x.len();
    if n > 2 {
        for keep in [n / 2, n - 1] {
            if keep >= 1 && keep < n {
                let mut c = sc.clone();
                c.x.truncate(keep);
                for col in c.y.iter_mut() {
                    col.truncate(keep);
                }
                if let Some(w) = c.weights.as_mut() {
                    w.truncate(keep);
                }
                out.push(c);
            }
        }
    }
    // simpler configuration
    if sc.weights.is_some() {
        let mut c = sc.clone();
        c.weights = None;
        out.push(c);
    }
    if sc.eps.is_some() {
        let mut c = sc.clone();
        c.eps = None;
        out.push(c);
    }
    if sc.opt != OptCfg::default() {
        let mut c = sc.clone();
        c.opt = OptCfg::default();
        out.push(c);
    }
    if sc.parallel {
        let mut c = sc.clone();
        c.parallel = false;
        out.push(c);
        let mut c = sc.clone();
        c.sched.mix = [Fx(1.0), Fx(0.0), Fx(0.0), Fx(0.0)];
        c.sched.overlap = false;
        if c != *sc {
            out.push(c);
        }
        if sc.sched.pool > 2 {
            let mut c = sc.clone();
            c.sched.pool = 2;
            out.push(c);
        }
    }
    if sc.width == Width::F32 {
        let mut c = sc.clone();
        c.width = Width::F64;
        out.push(c);
    }
    // drop a basis function whose parameters are still covered by the others
    if sc.model.funcs.len() > 1 {
        for j in 0..sc.model.funcs.len() {
            let mut c = sc.clone();
            c.model.funcs.remove(j);
            let covered = (0..c.model.nparams)
                .all(|k| c.model.funcs.iter().any(|f| f.params.contains(&k)));
            if covered {
                out.push(c);
            }
        }
    }
    // round floats to few significant digits
    {
        let mut c = sc.clone();
        let r = |v: &mut Fx| {
            if v.0.is_finite() && v.0 != 0.0 {
                let m = 10f64.powf(3.0 - v.0.abs().log10().ceil());
                let q = (v.0 * m).round() / m;
                let q = if c_width_is_f32(sc) { (q as f32) as f64 } else { q };
                *v = Fx(q);
            }
        };
        c.x.iter_mut().for_each(r);
        c.y.iter_mut().for_each(|col| col.iter_mut().for_each(r));
        c.alpha0.iter_mut().for_each(r);
        if let Some(w) = c.weights.as_mut() {
            w.iter_mut().for_each(r);
        }
        for op in c.ops.iter_mut() {
            if let Op::SetParams(a) = op {
                a.iter_mut().for_each(r);
            }
        }
        if c != *sc {
            out.push(c);
        }
    }
    out
}

fn c_width_is_f32(sc: &Scenario) -> bool {
    sc.width == Width::F32
}

/// Greedy descent over `candidates` until no candidate keeps the violation, the candidate
/// budget is used up or the time limit is hit. Returns the minimised violation and the
/// number of candidates tried.
pub fn minimise(v: &Violation, max_candidates: usize, limit: Duration) -> (Violation, usize) {
    let t0 = Instant::now();
    let mut best = v.clone();
    let mut tried = 0usize;
    // the shrinker must start from something that fails when executed on its own
    match still_fails(v, &v.scenario) {
        Some(w) => best = w,
        None => return (best, 0),
    }
    'outer: loop {
        let cands = candidates(&best.scenario);
        for c in cands {
            if tried >= max_candidates || t0.elapsed() > limit {
                break 'outer;
            }
            tried += 1;
            if let Some(w) = still_fails(v, &c) {
                best = w;
                continue 'outer;
            }
        }
        break;
    }
    (best, tried)
}

/// one-line human-readable trace of a scenario
pub fn describe(sc: &Scenario) -> String {
    let funcs: Vec<String> = sc
        .model
        .funcs
        .iter()
        .map(|f| format!("{:?}{:?}", f.family, f.params))
        .collect();
    let ops: Vec<String> = sc
        .ops
        .iter()
        .map(|o| match o {
            Op::SetParams(a) => format!(
                "SetParams({})",
                a.iter().map(|v| format!("{:.4e}", v.0)).collect::<Vec<_>>().join(",")
            ),
            o => op_name(o).to_string(),
        })
        .collect();
    let faults: Vec<String> = sc
        .faults
        .iter()
        .map(|f| format!("{:?}->{:?}/{:?}", f.trigger, f.action, f.persist))
        .collect();
    format!(
        "{:?} {:?} model[{}] N={} S={} {}{}weights={} alpha0=[{}]; build; {}; faults: [{}]",
        sc.model.kind,
        sc.width,
        funcs.join("+"),
        sc.x.len(),
        sc.y.len(),
        if sc.parallel { "parallel " } else { "" },
        if sc.mrhs { "mrhs " } else { "" },
        sc.weights.is_some(),
        sc.alpha0.iter().map(|v| format!("{:.4e}", v.0)).collect::<Vec<_>>().join(","),
        ops.join("; "),
        faults.join(", ")
    )
}
