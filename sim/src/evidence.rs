//! Evidence files (/verif/evidence/<id>.json), written from the counters of the run itself.

use crate::orchestrator::{verif_root, Agg};
use crate::props;

#[allow(clippy::too_many_arguments)]
pub fn write(
    prop: &str,
    tier: &str,
    seed: u64,
    agg: &Agg,
    wall: f64,
    explore_s: f64,
    violations: usize,
    known: usize,
    workers: usize,
) -> Result<(), String> {
    let dir = format!("{}/evidence", verif_root());
    std::fs::create_dir_all(&dir).map_err(|e| e.to_string())?;
    let per_hour = if explore_s > 0.0 {
        (agg.executions as f64 / explore_s * 3600.0) as u64
    } else {
        0
    };
    let faults: serde_json::Map<String, serde_json::Value> = agg
        .probes
        .iter()
        .filter(|(k, _)| k.starts_with("fault_"))
        .map(|(k, v)| (k.clone(), serde_json::json!(v)))
        .collect();
    let sched: serde_json::Map<String, serde_json::Value> = agg
        .probes
        .iter()
        .filter(|(k, _)| k.starts_with("sched_"))
        .map(|(k, v)| (k.clone(), serde_json::json!(v)))
        .collect();
    let probes: serde_json::Map<String, serde_json::Value> = agg
        .probes
        .iter()
        .filter(|(k, _)| !k.starts_with("fault_") && !k.starts_with("sched_"))
        .map(|(k, v)| (k.clone(), serde_json::json!(v)))
        .collect();
    let miri: serde_json::Value = std::env::var("VPSIM_EXTRA_EVIDENCE")
        .ok()
        .filter(|p| !p.is_empty())
        .and_then(|p| std::fs::read_to_string(p).ok())
        .and_then(|s| serde_json::from_str(&s).ok())
        .unwrap_or(serde_json::Value::Null);
    let ev = serde_json::json!({
        "property_id": prop,
        "tier": tier,
        "seed": seed as i64,
        "level": props::level(prop),
        "coverage": {
            "evaluations": agg.executions,
            "distinct_nontrivial": agg.signatures.len(),
            "rule": props::rule(prop),
            "samples": agg.samples,
            "seeded_runs": agg.reports,
            "nontrivial_runs": agg.nontrivial_runs,
            "simulated_time_model_seam_events": agg.events,
            "executions_per_hour": per_hour,
            "seeds_per_hour": if explore_s > 0.0 { (agg.reports as f64 / explore_s * 3600.0) as u64 } else { 0 },
            "faults_fired_by_kind": faults,
            "schedule_outcomes": sched,
            "probes": probes,
            "real_rayon_pool_entries": agg.real_pool_entries,
            "worker_processes": workers,
            "worker_restarts_after_hang_or_crash": agg.worker_restarts,
            "runs_skipped_after_confirmed_hangs": agg.runs_skipped_after_hangs,
            "known_findings_matched": known,
            "components": props::components(prop),
            "miri_layer": miri,
            "exhaustive": false
        },
        "assumptions": props::assumptions(prop),
        "wall_s": wall,
        "violations": violations as i64
    });
    let path = format!("{dir}/{prop}.json");
    std::fs::write(&path, serde_json::to_string_pretty(&ev).unwrap()).map_err(|e| e.to_string())
}
