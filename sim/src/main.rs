//! vpsim — deterministic simulation with fault injection for geo-ant/varpro.
//!
//!   vpsim check <PROP> <quick|thorough> [--runs N] [--workers W]   orchestrate, write evidence
//!   vpsim worker <PROP> <tier> <seed> <start> <count>              execute a slice (child process)
//!   vpsim exec <scenario.json>                                     execute one scenario, print report
//!   vpsim replay <replay.json>                                     re-execute a replay file
//!   vpsim gen <PROP> <tier> <seed> <index>                         print the materialised scenario
//!
//! Exit codes: 0 property held on everything explored; 1 violation; 2 harness error.

#![allow(dead_code)]
mod alloc;
mod ctl;
mod evidence;
mod executor;
mod gen;
mod model;
mod orchestrator;
mod prng;
mod prob;
mod props;
mod refmath;
mod report;
mod run;
mod sc;
mod shrink;
mod spec;

#[global_allocator]
static GLOBAL: alloc::Poison = alloc::Poison;

fn main() {
    let args: Vec<String> = std::env::args().skip(1).collect();
    let code = match args.first().map(|s| s.as_str()) {
        Some("check") => orchestrator::cmd_check(&args[1..]),
        Some("worker") => orchestrator::cmd_worker(&args[1..]),
        Some("exec") => orchestrator::cmd_exec(&args[1..]),
        Some("replay") => orchestrator::cmd_replay(&args[1..]),
        Some("gen") => orchestrator::cmd_gen(&args[1..]),
        Some("shrink") => orchestrator::cmd_shrink(&args[1..]),
        Some("digest") => orchestrator::cmd_digest(&args[1..]),
        _ => {
            eprintln!("usage: vpsim check|worker|exec|replay|gen|shrink|digest ...");
            2
        }
    };
    std::process::exit(code);
}
