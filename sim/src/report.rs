//! Verdicts and per-run reports.

use crate::spec::Scenario;
use serde::{Deserialize, Serialize};
use std::collections::BTreeMap;

#[derive(Clone, Debug, Serialize, Deserialize)]
pub struct Violation {
    pub property: String,
    /// fixed class string, e.g. STALE_AFTER_FAILURE
    pub class: String,
    /// where: operation / call site / panic location (stable identifier used by known findings)
    pub site: String,
    pub detail: String,
    /// the materialised scenario that reproduces it
    pub scenario: Scenario,
    /// build profile of the worker that observed it ("checked" or "release")
    #[serde(default)]
    pub profile: String,
}

impl Violation {
    pub fn key(&self) -> String {
        format!("{}|{}|{}", self.property, self.class, self.site)
    }
}

#[derive(Clone, Debug, Default, Serialize, Deserialize)]
pub struct RunReport {
    pub index: u64,
    /// number of scenario executions this run performed (a run may re-execute its scenario:
    /// fault enumeration, heap patterns, schedules)
    pub executions: u64,
    /// signature of the run for the distinct-nontrivial count ("" = trivial)
    pub signatures: Vec<String>,
    /// model-seam events (the simulator's logical time)
    pub events: u64,
    /// counters: faults fired per kind, reach probes, gate counters, schedule outcomes ...
    pub probes: BTreeMap<String, u64>,
    /// digest of everything observable in the run (for the determinism self-test)
    pub digest: u64,
    pub violations: Vec<Violation>,
    /// a compact description of the run, kept for a handful of samples
    pub sample: Option<serde_json::Value>,
}

impl RunReport {
    pub fn probe(&mut self, name: &str) {
        *self.probes.entry(name.to_string()).or_insert(0) += 1;
    }
    pub fn probe_n(&mut self, name: &str, n: u64) {
        *self.probes.entry(name.to_string()).or_insert(0) += n;
    }
    pub fn eat(&mut self, v: u64) {
        let mut h = self.digest ^ 0x9E37_79B9_7F4A_7C15;
        for k in 0..8 {
            h ^= (v >> (8 * k)) & 0xff;
            h = h.wrapping_mul(0x0000_0100_0000_01B3);
        }
        self.digest = h;
    }
    pub fn eat_bits(&mut self, b: &[u64]) {
        self.eat(b.len() as u64);
        for v in b {
            self.eat(*v);
        }
    }
    pub fn eat_str(&mut self, s: &str) {
        self.eat(crate::sc::hash_str(s));
    }
    pub fn violate(&mut self, sc: &Scenario, class: &str, site: &str, detail: String) {
        // one violation per (class, site) per run is enough
        if self
            .violations
            .iter()
            .any(|v| v.class == class && v.site == site)
        {
            return;
        }
        self.violations.push(Violation {
            property: sc.property.clone(),
            class: class.into(),
            site: site.into(),
            detail,
            scenario: sc.clone(),
            profile: String::new(),
        });
    }
}

/// normalise a panic description "a/b/file.rs:123 message" to a stable site "file.rs:123"
pub fn panic_site(p: &str) -> String {
    let loc = p.split_whitespace().next().unwrap_or("?");
    let tail = loc.rsplit('/').next().unwrap_or(loc);
    tail.to_string()
}
