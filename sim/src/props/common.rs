//! Shared helpers of the property drivers.

use crate::gen::{gen_alpha_update, DataGen};
use crate::prng::Rng;
use crate::spec::*;

#[derive(Clone, Copy, Debug)]
pub struct ScriptCfg {
    pub min_ops: usize,
    pub max_ops: usize,
    pub allow_extreme: bool,
    pub p_fit: f64,
    pub allow_clone: bool,
    pub allow_into_seq: bool,
    pub allow_band: bool,
}

/// caller-driven operation script
pub fn gen_script(rng: &mut Rng, sc: &Scenario, d: &DataGen, cfg: ScriptCfg) -> Vec<Op> {
    let n_ops = rng.usize_in(cfg.min_ops, cfg.max_ops);
    let mut ops = vec![];
    let mut visited: Vec<Vec<f64>> = vec![d.alpha0.clone()];
    let mut fitted = 0usize;
    // a second fit on the already fitted problem (refit) is allowed occasionally
    let max_fits = if rng.chance(0.15) { 2 } else { 1 };
    let mut converted = 0;
    while ops.len() < n_ops {
        let r = rng.unit();
        if r < 0.42 {
            let base = if rng.chance(0.5) { &d.alpha_true } else { &d.alpha0 };
            let a = gen_alpha_update(rng, base, &visited, sc.width, cfg.allow_extreme);
            visited.push(a.clone());
            ops.push(Op::SetParams(fxs(&a)));
        } else if r < 0.60 {
            ops.push(Op::Jacobian);
        } else if r < 0.72 {
            ops.push(match rng.below(3) {
                0 => Op::Residuals,
                1 => Op::Coefficients,
                _ => Op::Params,
            });
        } else if r < 0.78 {
            ops.push(Op::WeightedData);
        } else if r < 0.84 {
            if cfg.allow_clone && sc.model.kind == ModelKind::Hand {
                ops.push(Op::CloneAndCompare);
            }
        } else if r < 0.88 {
            // conversions between the flavours, at most two per script
            if cfg.allow_into_seq && converted < 2 {
                converted += 1;
                ops.push(if rng.chance(0.6) { Op::IntoSequential } else { Op::IntoParallel });
            }
        } else if r < 0.88 + cfg.p_fit && fitted < max_fits {
            fitted += 1;
            if !sc.mrhs && rng.chance(0.6) {
                ops.push(Op::FitWithStatistics);
                if cfg.allow_band && rng.chance(0.5) {
                    ops.push(Op::Band(Fx(rng.range(0.05, 0.99))));
                }
            } else {
                ops.push(Op::Fit);
            }
        }
    }
    ops
}

pub fn op_name(op: &Op) -> &'static str {
    match op {
        Op::SetParams(_) => "SetParams",
        Op::Residuals => "Residuals",
        Op::Jacobian => "Jacobian",
        Op::Coefficients => "Coefficients",
        Op::Params => "Params",
        Op::WeightedData => "WeightedData",
        Op::CloneAndCompare => "CloneAndCompare",
        Op::IntoSequential => "IntoSequential",
        Op::IntoParallel => "IntoParallel",
        Op::Fit => "Fit",
        Op::FitWithStatistics => "FitWithStatistics",
        Op::Band(_) => "Band",
        Op::ModelSetParams(_) => "ModelSetParams",
        Op::ModelEval => "ModelEval",
        Op::ModelDeriv(_) => "ModelDeriv",
        Op::ConcurrentQueries(_) => "ConcurrentQueries",
        Op::ResultView => "ResultView",
        Op::Marathon { .. } => "Marathon",
    }
}

pub fn is_update(op: &Op) -> bool {
    matches!(op, Op::SetParams(_) | Op::Fit | Op::FitWithStatistics | Op::Marathon { .. })
}

/// a "the model call fails" action appropriate for the model kind and call kind
pub fn fail_action(kind: ModelKind, rng: &mut Rng, n: usize) -> FaultAction {
    match kind {
        ModelKind::Hand => FaultAction::Fail,
        ModelKind::Builder => {
            let l = match rng.below(4) {
                0 => 0,
                1 => n.saturating_sub(1),
                2 => n + 1,
                _ => 2 * n,
            };
            FaultAction::WrongLen(l)
        }
    }
}

/// does this fault make the call *fail* (as opposed to succeeding with odd values)?
pub fn is_failure(a: &FaultAction) -> bool {
    matches!(
        a,
        FaultAction::Fail | FaultAction::FailAfterMutate | FaultAction::WrongLen(_)
    )
}

/// The acceptance condition of the problem builder (the text of C18), used by the other
/// drivers as a *precondition*: their scenarios are well-formed (at least one sample, one
/// observation row and - if given - one weight per sample), so `build()` has to succeed.
/// A run that ends because the library refused to build a valid problem must not count as
/// "held": the property quantifies over all such inputs and says what the problem exposes.
pub fn wellformed(sc: &Scenario) -> bool {
    let n = sc.n();
    n >= 1
        && !sc.y.is_empty()
        && sc.y.iter().all(|c| c.len() == n)
        && sc.weights.as_ref().map(|w| w.len() == n).unwrap_or(true)
        && sc.alpha0.len() == sc.model.nparams
}

pub fn expect_built(sc: &Scenario, rep: &mut crate::report::RunReport, build: &Result<(), String>, panicked: bool, who: &str) {
    if panicked {
        return;
    }
    match build {
        Ok(()) => {
            rep.probe("built");
            if sc.builder_order >= 6 {
                rep.probe("built_with_repeated_setter_calls");
            }
            if sc.ops.iter().any(|o| matches!(o, Op::Marathon { .. })) {
                rep.probe("scenarios_with_marathon");
            }
            if sc.n() > 4096 {
                rep.probe("giant_more_than_4096_samples");
            }
            if sc.model.nparams >= 65 {
                rep.probe("giant_65_or_more_parameters");
            }
            if sc.s() >= 64 {
                rep.probe("giant_64_or_more_right_hand_sides");
            }
            if sc.n() * sc.model.m() >= 65536 {
                rep.probe("giant_65536_or_more_basis_matrix_elements");
            }
            if sc.builder_order % 6 != 0 {
                rep.probe("built_with_permuted_setter_calls");
            }
        }
        Err(e) => {
            if wellformed(sc) {
                let kind: String = e.chars().take_while(|c| c.is_ascii_alphanumeric() || *c == '_').collect();
                rep.violate(sc, "BUILD_REJECTED", &format!("build{who}/{kind}"), format!("build() of a well-formed problem (N={}, S={}, weights {}) returned {e}", sc.n(), sc.s(), if sc.weights.is_some() { "given" } else { "none" }));
            } else {
                rep.probe("build_rejected_malformed_input");
            }
        }
    }
}

/// Run `f` once inside the shuttle runtime under one seeded schedule (random, or PCT for one
/// seed in four). Everything `f` spawns through `shuttle::thread` is interleaved by that
/// scheduler at shuttle's scheduling points (here: the model seam). A panic that escapes `f`
/// (or shuttle's own deadlock / step-bound detection) is returned as `Err`.
pub fn in_shuttle<R: Send + 'static>(seed: u64, f: impl Fn() -> R + Send + Sync + 'static) -> Result<R, String> {
    let out: std::sync::Arc<std::sync::Mutex<Option<R>>> = std::sync::Arc::new(std::sync::Mutex::new(None));
    let out2 = out.clone();
    let mut cfg = shuttle::Config::new();
    cfg.stack_size = 1 << 21;
    cfg.failure_persistence = shuttle::FailurePersistence::None;
    cfg.max_steps = shuttle::MaxSteps::FailAfter(5_000_000);
    cfg.silence_warnings = true;
    let res = crate::run::guarded(move || {
        let body = move || {
            let _scope = crate::ctl::ShuttleScope::enter();
            let v = f();
            *out2.lock().unwrap() = Some(v);
        };
        if seed % 4 == 0 {
            let s = shuttle::scheduler::PctScheduler::new_from_seed(seed, 3, 1);
            shuttle::Runner::new(s, cfg).run(body);
        } else {
            let s = shuttle::scheduler::RandomScheduler::new_from_seed(seed, 1);
            shuttle::Runner::new(s, cfg).run(body);
        }
    });
    crate::executor::Exec::uninstall();
    match res {
        Err(p) => Err(p),
        Ok(()) => out.lock().unwrap().take().ok_or_else(|| "shuttle run produced no result".to_string()),
    }
}

/// Turn a scenario into its *concurrent-callers* variant: one to two `ConcurrentQueries`
/// operations at seeded positions of the script, executed under the shuttle runtime. The
/// draws come from their own stream so that the scenario is otherwise unchanged.
pub fn make_concurrent(sc: &mut Scenario, rng: &mut Rng) {
    sc.variant = "concurrent".into();
    sc.sched.overlap = true;
    sc.sched.shuttle_seed = rng.next_u64();
    if sc.parallel {
        sc.sched.pool = sc.sched.pool.max(2);
        sc.sched.mix = [Fx(0.15), Fx(0.15), Fx(0.15), Fx(0.55)];
    }
    let cnt = 1 + rng.below(2) as usize;
    for _ in 0..cnt {
        let pos = rng.usize_in(0, sc.ops.len());
        sc.ops.insert(pos, Op::ConcurrentQueries(2 + rng.below(3) as u8));
    }
}

/// The rule for `ConcurrentQueries` (C10, C11). `log` is the model-seam log of the execution.
/// Fault-free operation: every simultaneous caller sees bitwise what the lone caller saw.
/// With model *failures* during the operation (transient, burst or persistent): residuals,
/// coefficients and parameters are still those the lone caller saw (queries never change
/// them); every Jacobian that *is* returned equals every other one; and a failing model call
/// can cost at most the one caller it belongs to its Jacobian — so the number of callers left
/// without a Jacobian is at most the number of failed calls in the callers' phase (none if the
/// lone caller already had none: then nobody calls the model). Faults that make a call succeed
/// with odd values gate the comparison (counted).
pub fn concurrent_rule<T: crate::sc::Sc>(
    sc: &Scenario,
    rep: &mut crate::report::RunReport,
    st: &crate::run::StepObs<T>,
    log: &[crate::ctl::Event],
    class: &str,
    site: &str,
) {
    let crate::run::Extra::Concurrent { reference, observed, overlapped, ref_ev_to } = &st.extra else { return };
    let from = st.ev_from.min(log.len());
    let to = st.ev_to.min(log.len());
    let mid = (*ref_ev_to).clamp(from, to);
    let faults_in_op: Vec<&FaultAction> = log[from..to].iter().filter_map(|e| e.fault.as_ref()).collect();
    if faults_in_op.iter().any(|a| !is_failure(a)) {
        rep.probe("concurrent_queries_gated_by_value_fault");
        return;
    }
    rep.probe(if *overlapped { "concurrent_queries_overlapped" } else { "concurrent_queries_serialised" });
    let failed_in_callers = log[mid..to].iter().filter(|e| e.fault.is_some()).count();
    if !faults_in_op.is_empty() {
        rep.probe("concurrent_queries_with_failing_calls");
    }
    let mut without_jac = 0usize;
    let mut first_some: Option<&crate::run::JacObs> = if reference.1.bits.is_some() { Some(&reference.1) } else { None };
    for (i, o) in observed.iter().enumerate() {
        match o {
            Ok((s, j)) => {
                if s != &reference.0 {
                    rep.violate(sc, class, site, format!("op {}: caller {i} of {} simultaneous callers saw different residuals/coefficients/parameters than a caller querying alone", st.op, observed.len()));
                }
                if j.bits.is_none() {
                    without_jac += 1;
                } else {
                    match first_some {
                        None => first_some = Some(j),
                        Some(f) => {
                            if f != j {
                                rep.violate(sc, class, site, format!("op {}: caller {i} of {} simultaneous callers saw a different Jacobian than {}", st.op, observed.len(), if reference.1.bits.is_some() { "a caller querying alone" } else { "another simultaneous caller" }));
                            }
                        }
                    }
                }
            }
            Err(p) => rep.violate(sc, "PANIC", &format!("ConcurrentQueries@{}", crate::report::panic_site(p)), p.clone()),
        }
    }
    // the lone caller had no Jacobian without any failing call: the state is absent, every
    // caller must find it absent too (and nobody calls the model)
    let ref_failed = log[from..mid].iter().any(|e| e.fault.is_some());
    if reference.1.bits.is_none() && !ref_failed {
        if without_jac != observed.iter().filter(|o| o.is_ok()).count() {
            rep.violate(sc, class, site, format!("op {}: a lone caller got no Jacobian, yet a simultaneous caller got one", st.op));
        }
    } else if without_jac > failed_in_callers {
        rep.violate(sc, class, site, format!("op {}: {without_jac} of {} simultaneous callers got no Jacobian although only {failed_in_callers} model call(s) failed while they ran", st.op, observed.len()));
    }
}

/// Consecutive updates that differ only in the *sign of a zero* (+0.0 == -0.0 compares equal,
/// the bits and - for a model sensitive to it - the values differ). (1) after a `SetParams`
/// with a zero component the same vector with that zero's sign flipped, half of the time;
/// (2) in scenarios with the `TanhStep` family (tanh((x-x0)/w) is +-1 for w = +-0) a pair
/// w = +0 / w = -0 on otherwise ordinary parameters, followed by a Jacobian query.
/// Own PRNG stream: nothing else about the scenario changes.
pub fn add_zero_sign_pairs(sc: &mut Scenario, rng: &mut Rng) {
    let mut i = 0;
    while i < sc.ops.len() {
        if let Op::SetParams(a) = &sc.ops[i] {
            if let Some(k) = a.iter().position(|v| v.0 == 0.0) {
                if rng.chance(0.5) {
                    let mut b = a.clone();
                    b[k] = Fx(-b[k].0);
                    sc.ops.insert(i + 1, Op::SetParams(b));
                    i += 1;
                }
            }
        }
        i += 1;
    }
    let step = sc.model.funcs.iter().find(|f| f.family == Family::TanhStep).map(|f| f.params[1]);
    if let Some(k) = step {
        if rng.chance(0.6) && k < sc.alpha0.len() {
            let mut a = sc.alpha0.clone();
            let mut b = sc.alpha0.clone();
            let first_negative = rng.chance(0.5);
            a[k] = Fx(if first_negative { -0.0 } else { 0.0 });
            b[k] = Fx(if first_negative { 0.0 } else { -0.0 });
            let pos = rng.usize_in(0, sc.ops.len());
            sc.ops.insert(pos, Op::SetParams(a));
            sc.ops.insert(pos + 1, Op::SetParams(b));
            sc.ops.insert(pos + 2, Op::Jacobian);
        }
    }
}

/// the parameter vector in effect after a `Marathon`
pub fn marathon_last(count: u32, alphas: &[Vec<Fx>]) -> Option<&Vec<Fx>> {
    if count == 0 || alphas.is_empty() {
        None
    } else {
        alphas.get((count as usize - 1) % alphas.len())
    }
}

/// Turn a *small* fault-free-able scenario into a marathon (1 in 1000 of them, hash-selected):
/// 1 000 - 70 000 consecutive successful updates on the one problem (half of them beyond 2^16),
/// cycling through two or three ordinary parameter vectors, inserted at a seeded position of
/// the script. Faults are removed (occurrence-keyed triggers would all land inside it).
pub fn maybe_marathon(sc: &mut Scenario, seed: u64, index: u64) {
    let h = crate::prng::mix(seed, "marathon", index);
    if h % 1000 != 0 || sc.n() > 12 || sc.model.m() > 3 || sc.s() > 2 || sc.alpha0.is_empty() {
        return;
    }
    let mut rng = Rng::new(h);
    let count = if rng.chance(0.5) { rng.usize_in(65_537, 70_000) } else { rng.log_uniform(3.0, 4.816) as usize } as u32;
    let k = rng.usize_in(2, 3);
    let alphas: Vec<Vec<Fx>> = (0..k)
        .map(|i| {
            sc.alpha0
                .iter()
                .map(|a| {
                    let f = if i == 0 { 1.0 } else { 1.0 + rng.range(-0.05, 0.05) };
                    Fx(match sc.width {
                        Width::F64 => a.0 * f,
                        Width::F32 => (a.0 * f) as f32 as f64,
                    })
                })
                .collect()
        })
        .collect();
    sc.faults.clear();
    let pos = rng.usize_in(0, sc.ops.len());
    sc.ops.insert(pos, Op::Marathon { count, alphas });
}

/// Two states of the two flavours that are not bitwise equal: are they equal up to rounding?
/// Some(true) yes / Some(false) no / None not decidable (ill-conditioned, truncation threshold
/// in play, non-finite reference). Parameters and presence must agree exactly.
pub fn state_close<T: crate::sc::Sc>(w: &crate::run::World<T>, a: &crate::run::Snap, b: &crate::run::Snap) -> Option<bool> {
    let to_t = |bits: &[u64]| -> Vec<T> { bits.iter().map(|b| T::of_bits(*b)).collect() };
    if a.params != b.params || a.resid.is_some() != b.resid.is_some() || a.coeff.is_some() != b.coeff.is_some() || a.coeff_shape != b.coeff_shape {
        return Some(false);
    }
    let (Some(ra), Some(rb), Some(ca), Some(cb)) = (&a.resid, &b.resid, &a.coeff, &b.coeff) else { return Some(true) };
    let p: Vec<T> = to_t(&a.params);
    if p.len() != w.p() {
        return None;
    }
    let phiw = crate::refmath::phi_w::<T>(&w.spec, &w.x, w.w.as_ref(), &p);
    if ca == cb {
        // identical coefficients: the residuals Yw - Phiw.C can only differ by how the product
        // and the difference were rounded - a plain forward-error bound, no conditioning and no
        // truncation threshold involved
        let fin = |v: f64| if v.is_finite() { v } else { 0.0 };
        let cmax = to_t(ca).iter().map(|v| fin(v.f().abs())).fold(0.0f64, f64::max);
        let yw = w.weighted_y().iter().map(|v| fin(v.f().abs())).fold(0.0f64, f64::max);
        let pmax = phiw.iter().map(|v| fin(v.f().abs())).fold(0.0f64, f64::max);
        let scale = yw + pmax * cmax * w.m() as f64;
        let rel = 64.0 * (w.m() as f64 + 8.0) * T::u();
        let ok = ra.len() == rb.len()
            && to_t(ra).iter().zip(to_t(rb).iter()).all(|(p, q)| {
                let (p, q) = (p.f(), q.f());
                p == q || !p.is_finite() || !q.is_finite() || (p - q).abs() <= rel * scale + 8.0 * T::tiny()
            });
        return Some(ok);
    }
    let m = crate::refmath::M64::from_t(&phiw);
    let sv = crate::refmath::singular_values(&m)?;
    let (smax, smin) = (sv[0], *sv.last()?);
    let eps = w.eps.map(|e| e.f().abs()).unwrap_or(2.0 * T::u());
    if !(smin > 4.0 * eps) || smin < crate::refmath::underflow_range::<T>() || !smax.is_finite() {
        return None;
    }
    let kappa = smax / smin;
    let floor = if T::NAME == "f64" { 1e-8 } else { 2e-3 };
    let rel = (64.0 * (w.n() as f64 + 8.0) * T::u() + floor) * kappa * kappa;
    if !(rel < 0.02) {
        return None;
    }
    let fin = |v: f64| if v.is_finite() { v } else { 0.0 };
    let cmax = to_t(ca).iter().chain(to_t(cb).iter()).map(|v| fin(v.f().abs())).fold(0.0f64, f64::max);
    let yw = w.weighted_y().iter().map(|v| fin(v.f().abs())).fold(0.0f64, f64::max);
    let pmax = phiw.iter().map(|v| fin(v.f().abs())).fold(0.0f64, f64::max);
    let r_scale = yw + pmax * cmax * w.m() as f64;
    let c_scale = cmax.max(yw / smin);
    let close = |x: &[u64], y: &[u64], scale: f64| {
        x.len() == y.len()
            && to_t(x).iter().zip(to_t(y).iter()).all(|(p, q)| {
                let (p, q) = (p.f(), q.f());
                p == q || !p.is_finite() || !q.is_finite() || (p - q).abs() <= rel * scale + 8.0 * T::tiny()
            })
    };
    Some(close(ra, rb, r_scale) && close(ca, cb, c_scale))
}


/// A state the library reports vs. the state of a fresh reference problem. On the pinned tree
/// both flavours compute the update path identically, so the comparison is bitwise. When the
/// reported state was computed by the OTHER flavour than the reference (a fit on a parallel
/// problem hands back a sequential one; the references of C04/C09 are sequential), a
/// refactoring of one flavour may legitimately differ in the last bits: then - and only then -
/// a conditioning-aware rounding bound decides. Presence and parameters always agree exactly.
#[derive(Clone, Copy, Debug, PartialEq)]
pub enum Agree {
    Bitwise,
    Rounding,
    No,
}

pub fn agree_with_reference<T: crate::sc::Sc>(w: &crate::run::World<T>, reference: &crate::run::Snap, reported: &crate::run::Snap, same_flavour: bool) -> Agree {
    if reference.resid == reported.resid && reference.coeff == reported.coeff {
        return Agree::Bitwise;
    }
    if same_flavour {
        return Agree::No;
    }
    let mut r = reference.clone();
    r.params = reported.params.clone();
    match state_close::<T>(w, &r, reported) {
        Some(true) => Agree::Rounding,
        // undecidable (coefficients differ while the system is ill-conditioned or the truncation
        // threshold is in play): reported, as under the bitwise rule - a one-flavour defect in
        // the truncation decision lives exactly there (seeded change C11-f)
        Some(false) | None => Agree::No,
    }
}
