//! C08 — construction and fitting always terminate without panicking.
//!
//! Two input regimes in separate variants: "far" (well-formed data, starts spread over
//! twelve decades with random signs: the optimizer walks into overflow on its own) and
//! "hostile" (IEEE special values in x, y, w, α, degenerate shapes, non-finite model output
//! injected at chosen calls). Every run executes under both build profiles, under a
//! watchdog and a logical step bound.

use super::common::*;
use crate::ctl::Ctl;
use crate::executor::Exec;
use crate::gen::*;
use crate::prng::{mix, Rng};
use crate::report::{panic_site, RunReport};
use crate::run::*;
use crate::sc::Sc;
use crate::spec::*;
use std::sync::Arc;

fn special(rng: &mut Rng, width: Width) -> f64 {
    let (mx, sub) = match width {
        Width::F64 => (f64::MAX, 5e-324),
        Width::F32 => (f32::MAX as f64, 1.4e-45),
    };
    match rng.below(10) {
        0 => 0.0,
        1 => -0.0,
        2 => sub,
        3 => -sub,
        4 => mx,
        5 => -mx,
        6 => f64::INFINITY,
        7 => f64::NEG_INFINITY,
        8 => f64::NAN,
        _ => mx.sqrt() * 2.0,
    }
}

fn poison(rng: &mut Rng, v: &mut [Fx], p: f64, width: Width) -> u64 {
    let mut k = 0;
    for x in v.iter_mut() {
        if rng.chance(p) {
            *x = Fx(special(rng, width));
            k += 1;
        }
    }
    k
}

pub fn generate(seed: u64, index: u64, thorough: bool) -> Scenario {
    let mut rng = Rng::new(mix(seed, "C08", index));
    let hostile = rng.chance(0.5);
    let kind = if rng.chance(0.3) {
        ModelKind::Builder
    } else {
        ModelKind::Hand
    };
    // badly scaled bases need several columns: the far regime prefers the larger models
    let sizes = pick_sizes(&mut rng, thorough, if !hostile { 0.6 } else if thorough { 0.3 } else { 0.15 });
    let parallel = rng.chance(0.2);
    let noise = *rng.pick(&[0.0, 1e-3, 5e-2, 0.3]);
    let (mut sc, d) = base_scenario(&mut rng, "C08", seed, index, kind, sizes, parallel, Start::Mid, noise);
    sc.variant = if hostile { "hostile".into() } else { "far".into() };
    if rng.chance(0.7) {
        sc.opt.patience = sc.opt.patience.min(rng.usize_in(3, 40));
    }
    // far starts: log-uniform over twelve decades, random signs
    let far: Vec<f64> = d
        .alpha_true
        .iter()
        .map(|a| {
            let v = a * rng.log_uniform(-6.0, 6.0);
            rw(sc.width, if rng.chance(0.35) { -v } else { v })
        })
        .collect();
    if rng.chance(0.6) {
        sc.alpha0 = fxs(&far);
    }
    let mut ops = vec![];
    let n_updates = rng.usize_in(0, 2);
    for _ in 0..n_updates {
        let a: Vec<f64> = d
            .alpha_true
            .iter()
            .map(|a| {
                let v = a * rng.log_uniform(-6.0, 6.0);
                rw(sc.width, if rng.chance(0.35) { -v } else { v })
            })
            .collect();
        ops.push(Op::SetParams(fxs(&a)));
        if rng.chance(0.3) {
            ops.push(Op::Jacobian);
        }
    }
    ops.push(if sc.mrhs || rng.chance(0.35) {
        Op::Fit
    } else {
        Op::FitWithStatistics
    });
    if rng.chance(0.4) {
        ops.push(Op::Band(Fx(rng.range(0.01, 0.99))));
    }
    if rng.chance(0.3) {
        ops.push(Op::Jacobian);
    }
    sc.ops = ops;
    if hostile {
        let w = sc.width;
        let p = *rng.pick(&[0.02, 0.05, 0.05, 0.15]);
        // degenerate shapes
        match rng.below(8) {
            0 => {
                // a single sample
                sc.x.truncate(1);
                for c in sc.y.iter_mut() {
                    c.truncate(1);
                }
                if let Some(wv) = sc.weights.as_mut() {
                    wv.truncate(1);
                }
            }
            1 => {
                // fewer samples than basis functions
                let k = sc.model.m().saturating_sub(1).max(1);
                sc.x.truncate(k);
                for c in sc.y.iter_mut() {
                    c.truncate(k);
                }
                if let Some(wv) = sc.weights.as_mut() {
                    wv.truncate(k);
                }
            }
            2 => {
                // fewer residuals than nonlinear parameters
                let k = (sc.model.nparams.saturating_sub(1) / sc.y.len().max(1)).max(1);
                sc.x.truncate(k);
                for c in sc.y.iter_mut() {
                    c.truncate(k);
                }
                if let Some(wv) = sc.weights.as_mut() {
                    wv.truncate(k);
                }
            }
            3 => {
                // duplicated abscissae
                let x0 = sc.x[0];
                for x in sc.x.iter_mut() {
                    *x = x0;
                }
            }
            _ => {}
        }
        // mis-shaped inputs: weights or observations that do not match the samples. build()
        // has to answer with an error value (which one is C18's business), never a panic
        if rng.chance(0.12) {
            let n = sc.x.len();
            let s = sc.y.len();
            let l = match rng.below(7) {
                0 => 0,
                1 => 1,
                2 => n.saturating_sub(1),
                3 => n + 1,
                4 => 2 * n,
                5 => n * s,
                _ => n * s + 1,
            };
            if rng.chance(0.6) {
                let fill = sc.weights.as_ref().and_then(|w| w.first().copied()).unwrap_or(Fx(1.0));
                let mut wv = sc.weights.clone().unwrap_or_default();
                wv.resize(l, fill);
                sc.weights = Some(wv);
            } else {
                for c in sc.y.iter_mut() {
                    let fill = c.first().copied().unwrap_or(Fx(0.0));
                    c.resize(l, fill);
                }
            }
        }
        let mut poisoned = 0;
        if rng.chance(0.5) {
            poisoned += poison(&mut rng, &mut sc.x, p, w);
        }
        if rng.chance(0.6) {
            for c in sc.y.iter_mut() {
                poisoned += poison(&mut rng, c, p, w);
            }
        }
        if rng.chance(0.5) {
            if let Some(wv) = sc.weights.as_mut() {
                poisoned += poison(&mut rng, wv, p, w);
            }
        }
        if rng.chance(0.4) {
            poisoned += poison(&mut rng, &mut sc.alpha0, 0.3, w);
        }
        if rng.chance(0.3) {
            for op in sc.ops.iter_mut() {
                if let Op::SetParams(a) = op {
                    poisoned += poison(&mut rng, a, 0.3, w);
                }
            }
        }
        if rng.chance(0.15) {
            sc.eps = Some(Fx(special(&mut rng, w)));
        }
        // one special value in every weight (all subnormal, all huge, all zero ...)
        if rng.chance(0.06) {
            let v = special(&mut rng, w);
            let n = sc.x.len();
            sc.weights = Some(vec![Fx(v); n]);
            poisoned += n as u64;
        }
        // non-finite model output at chosen calls
        if rng.chance(0.5) || poisoned == 0 {
            let nf = rng.usize_in(1, 2);
            for _ in 0..nf {
                let bv = *rng.pick(&[BadValue::Nan, BadValue::PosInf, BadValue::NegInf]);
                let cell = rng.below(64) as usize;
                let trigger = match kind {
                    ModelKind::Hand => {
                        if rng.chance(0.6) {
                            Trigger::Kind(CallKind::Eval, rng.below(12) as u32)
                        } else {
                            Trigger::Kind(
                                CallKind::Deriv(rng.usize_in(0, sc.model.nparams - 1)),
                                rng.below(6) as u32,
                            )
                        }
                    }
                    ModelKind::Builder => {
                        let j = rng.usize_in(0, sc.model.m() - 1);
                        let f = &sc.model.funcs[j];
                        if !f.params.is_empty() && rng.chance(0.4) {
                            Trigger::Kind(CallKind::FuncDeriv(j, *rng.pick(&f.params)), rng.below(6) as u32)
                        } else {
                            Trigger::Kind(CallKind::Func(j), rng.below(12) as u32)
                        }
                    }
                };
                sc.faults.push(FaultRule {
                    trigger,
                    action: FaultAction::NonFinite(bv, cell),
                    persist: *rng.pick(&[Persist::Once, Persist::Once, Persist::Forever, Persist::Burst(3)]),
                });
            }
        }
    }
    if !hostile {
        maybe_marathon(&mut sc, seed, index);
    }
    sc
}

pub fn execute(sc: &Scenario) -> RunReport {
    crate::props::dispatch!(sc, exec_t)
}

fn exec_t<T: Sc, F: Factory<T>>(sc: &Scenario) -> RunReport {
    let mut rep = RunReport::default();
    rep.executions = 1;
    crate::ctl::set_current(sc);
    let exec = Exec::new(&sc.sched);
    exec.install();
    let ctl = Arc::new(Ctl::new(sc.faults.clone()));
    let mut r = Runner::<T, F>::start(sc, ctl.clone());
    r.run_ops(&sc.ops);
    Exec::uninstall();
    let log = ctl.log();
    rep.events = ctl.seq();
    if let Some(p) = &r.build_panic {
        rep.violate(sc, "PANIC", &format!("build@{}", panic_site(p)), p.clone());
    }
    let shapes_ok = sc.y.iter().all(|c| c.len() == sc.n()) && sc.weights.as_ref().map(|w| w.len() == sc.n()).unwrap_or(true);
    if !shapes_ok {
        rep.probe("runs_with_mismatched_shapes");
        if r.build.is_ok() {
            rep.probe("mismatched_shapes_accepted_by_build");
        }
    }
    match &r.build {
        Ok(()) => rep.probe("build_ok"),
        Err(e) => {
            rep.probe("build_rejected");
            rep.eat_str(e);
        }
    }
    let (m, p) = (sc.model.m(), sc.model.nparams);
    let d_slots: usize = sc.model.funcs.iter().map(|f| f.params.len()).sum();
    let mut sig = vec![];
    for st in &r.steps {
        let op = &sc.ops[st.op];
        let name = op_name(op);
        if let Some(pm) = &st.panic {
            rep.violate(sc, "PANIC", &format!("{}@{}", name, panic_site(pm)), pm.clone());
            break;
        }
        if let Some(s) = &st.snap {
            rep.eat_bits(&s.params);
            rep.eat(s.resid.is_some() as u64);
            if s.resid.is_none() {
                rep.probe("state_rejected_cache_empty");
                let alpha: Vec<T> = s.params.iter().map(|b| T::of_bits(*b)).collect();
                let w = &r.world;
                if alpha.len() == w.p() && w.w.as_ref().map(|v| v.len() == w.n()).unwrap_or(true) {
                    let pw = crate::refmath::phi_w::<T>(&w.spec, &w.x, w.w.as_ref(), &alpha);
                    if pw.iter().all(|v| v.f().is_finite()) && sc.faults.is_empty() {
                        // finite basis, no injected fault: the library rejected the decomposition
                        rep.probe("cache_emptied_by_rejected_decomposition");
                    }
                }
            }
        }
        if let Extra::Fit(f) = &st.extra {
            rep.eat_str(&f.termination);
            rep.eat(f.evaluations as u64);
            rep.probe(&format!("termination_{}", f.termination.split('(').next().unwrap_or("")));
            // logical step bound
            let e_max = sc.opt.patience.max(1) * (p + 1);
            let bound = match sc.model.kind {
                ModelKind::Hand => e_max * (p + 2) + p + 5,
                ModelKind::Builder => e_max * (m + d_slots) + 4 * m + d_slots,
            };
            let used = st.ev_to - st.ev_from;
            if used > bound || ctl.cap_hit() {
                rep.violate(sc, "STEP_BOUND_EXCEEDED", name, format!("{used} model calls during one fit, logical bound {bound} (patience {}, P={p})", sc.opt.patience));
            }
            // Ok => finite state
            if f.ok {
                rep.probe("fit_ok");
                // present values must be finite; an absent state is the documented
                // "rejected state" (e.g. non-finite model output at the optimizer's final
                // restoring set_params, which the optimizer never inspects)
                let fin = |bits: &Option<Vec<u64>>| {
                    bits.as_ref()
                        .map(|b| b.iter().all(|x| T::of_bits(*x).f().is_finite()))
                        .unwrap_or(true)
                };
                if let Some(s) = &st.snap {
                    if s.resid.is_none() {
                        rep.probe("fit_ok_with_rejected_final_state");
                    }
                    if !fin(&s.resid) || !fin(&s.coeff) {
                        rep.violate(sc, "NONFINITE_SUCCESS", name, format!("{} returned Ok({}) but the final residuals/coefficients are not finite", name, f.termination));
                    }
                }
            } else {
                rep.probe("fit_err");
            }
            sig.push(format!("{}:{}", f.ok as u8, f.termination.split('(').next().unwrap_or("")));
        }
    }
    let nonfinite_inputs = sc.x.iter().chain(sc.alpha0.iter()).chain(sc.y.iter().flatten()).any(|v| !v.0.is_finite())
        || sc.weights.as_ref().map(|w| w.iter().any(|v| !v.0.is_finite())).unwrap_or(false);
    if nonfinite_inputs {
        rep.probe("runs_with_nonfinite_inputs");
    }
    for e in &log {
        if e.fault.is_some() {
            rep.probe(&format!("fault_nonfinite_{}", e.kind.class()));
        }
    }
    let emptied = r.steps.iter().any(|s| s.snap.as_ref().map(|x| x.resid.is_none()).unwrap_or(false))
        || r.build_snap.as_ref().map(|x| x.resid.is_none()).unwrap_or(false);
    // non-trivial: the run actually reached a non-finite / rejected state or an Err fit
    if emptied || nonfinite_inputs || sig.iter().any(|s| s.starts_with('0')) {
        rep.signatures = vec![format!(
            "{:?}|{:?}|{}|{}|N{}|M{}|P{}|S{}|{}|e{}|{}",
            F::KIND,
            sc.width,
            sc.variant,
            if sc.parallel { "par" } else { "seq" },
            sc.n().min(6),
            m,
            p,
            sc.s(),
            sig.join(","),
            emptied as u8,
            r.build.is_ok() as u8
        )];
    }
    rep.sample = Some(serde_json::json!({
        "variant": sc.variant,
        "model": format!("{:?}", sc.model.funcs.iter().map(|f| (f.family, f.params.clone())).collect::<Vec<_>>()),
        "kind": format!("{:?}", sc.model.kind), "width": format!("{:?}", sc.width),
        "N": sc.n(), "S": sc.s(), "alpha0": sc.alpha0.iter().map(|v| format!("{:e}", v.0)).collect::<Vec<_>>(),
        "ops": sc.ops.iter().map(op_name).collect::<Vec<_>>(),
        "faults": sc.faults.iter().map(|f| format!("{:?}", f)).collect::<Vec<_>>(),
        "outcome": sig, "model_calls": log.len(),
    }));
    rep
}
