//! C10 — problem state is a function of the current α only (no history, no garbage).

use super::common::*;
use crate::alloc;
use crate::ctl::Ctl;
use crate::executor::Exec;
use crate::gen::*;
use crate::prng::{mix, Rng};
use crate::report::{panic_site, RunReport};
use crate::run::*;
use crate::sc::Sc;
use crate::spec::*;
use std::sync::Arc;

pub fn generate(seed: u64, index: u64, thorough: bool) -> Scenario {
    let mut rng = Rng::new(mix(seed, "C10", index));
    let kind = if rng.chance(0.35) {
        ModelKind::Builder
    } else {
        ModelKind::Hand
    };
    let sizes = pick_sizes(&mut rng, thorough, if thorough { 0.3 } else { 0.15 });
    let parallel = rng.chance(0.3);
    let start = *rng.pick(&[Start::Near, Start::Mid, Start::Far, Start::Exact]);
    let noise = *rng.pick(&[0.0, 1e-3, 5e-2, 0.3]);
    let (mut sc, d) = base_scenario(&mut rng, "C10", seed, index, kind, sizes, parallel, start, noise);
    sc.opt.patience = sc.opt.patience.min(20);
    let long = rng.chance(0.25);
    sc.ops = gen_script(
        &mut rng,
        &sc,
        &d,
        ScriptCfg {
            min_ops: if long { 10 } else { 3 },
            max_ops: if long { 24 } else { 9 },
            allow_extreme: true,
            p_fit: 0.08,
            allow_clone: true,
            allow_into_seq: true,
            allow_band: false,
        },
    );
    // failed updates in the history: 0..2 transient faults on update-path calls
    let nf = rng.weighted(&[0.45, 0.4, 0.15]);
    for _ in 0..nf {
        let n_updates = sc.ops.iter().filter(|o| matches!(o, Op::SetParams(_))).count() as u32 + 1;
        let nth = rng.below(n_updates.max(1) as u64 + 2) as u32;
        let (trigger, action) = match kind {
            ModelKind::Hand => {
                if rng.chance(0.5) {
                    (
                        Trigger::Kind(CallKind::SetParams, nth),
                        if rng.chance(0.3) {
                            FaultAction::FailAfterMutate
                        } else {
                            FaultAction::Fail
                        },
                    )
                } else {
                    (Trigger::Kind(CallKind::Eval, nth), FaultAction::Fail)
                }
            }
            ModelKind::Builder => {
                let j = rng.usize_in(0, sc.model.m() - 1);
                (
                    Trigger::Kind(CallKind::Func(j), nth),
                    fail_action(kind, &mut rng, sc.n()),
                )
            }
        };
        sc.faults.push(FaultRule {
            trigger,
            action,
            persist: if rng.chance(0.2) {
                Persist::Burst(rng.usize_in(2, 6) as u32)
            } else {
                Persist::Once
            },
        });
    }
    add_zero_sign_pairs(&mut sc, &mut Rng::new(mix(seed, "C10-zero-sign", index)));
    // a failing partial derivative during a Jacobian query (own PRNG stream): the query must
    // yield no Jacobian - a matrix with a column that was never written would differ between
    // heap fill patterns
    let mut r3 = Rng::new(mix(seed, "C10-derivative-failure", index));
    // giant scenarios are rare: let them meet the parallel flavour and a failing derivative
    // more often than ordinary ones, so that a quick batch contains the conjunction
    let is_giant = sc.n() * sc.s() >= 4096 || sc.model.nparams >= 65 || sc.s() >= 11;
    if is_giant && !sc.parallel && r3.chance(0.5) {
        sc.parallel = true;
        sc.sched = gen_sched(&mut r3, true, false);
    }
    if r3.chance(if is_giant { 0.5 } else { 0.12 }) && sc.model.nparams > 0 {
        let (trigger, action) = match kind {
            ModelKind::Hand => (Trigger::Kind(CallKind::Deriv(r3.usize_in(0, sc.model.nparams - 1)), r3.below(4) as u32), FaultAction::Fail),
            ModelKind::Builder => {
                let cands: Vec<(usize, usize)> = sc.model.funcs.iter().enumerate().flat_map(|(j, f)| f.params.iter().map(move |k| (j, *k))).collect();
                let (j, k) = *r3.pick(&cands);
                (Trigger::Kind(CallKind::FuncDeriv(j, k), r3.below(4) as u32), fail_action(kind, &mut r3, sc.n()))
            }
        };
        sc.faults.push(FaultRule { trigger, action, persist: if r3.chance(0.7) { Persist::Once } else { Persist::Forever } });
    }
    maybe_marathon(&mut sc, seed, index);
    let is_marathon = sc.ops.iter().any(|o| matches!(o, Op::Marathon { .. }));
    // concurrent callers (own PRNG stream: every other scenario stays as it was)
    let mut r2 = Rng::new(mix(seed, "C10-concurrent", index));
    if r2.chance(if thorough { 0.12 } else { 0.08 }) && !is_marathon {
        make_concurrent(&mut sc, &mut r2);
    }
    sc
}

pub fn execute(sc: &Scenario) -> RunReport {
    crate::props::dispatch!(sc, exec_t)
}

const FILLS: [u8; 3] = [0x00, 0xFF, 0xA5];

fn exec_t<T: Sc, F: Factory<T>>(sc: &Scenario) -> RunReport {
    let mut rep = RunReport::default();
    // the scenario's own fill first, then two more patterns
    let mut fills = vec![sc.heap_fill];
    for f in FILLS {
        if !fills.contains(&f) && fills.len() < 3 {
            fills.push(f);
        }
    }
    let mut digests: Vec<(u8, u64, String)> = vec![];
    for (pass, fill) in fills.iter().enumerate() {
        alloc::set_fill(*fill);
        let mut sub = RunReport::default();
        if sc.variant == "concurrent" {
            // the whole pass (script, concurrent callers, the oracle's fresh problems) runs
            // inside the shuttle runtime under one seeded schedule
            let scc = sc.clone();
            let first = pass == 0;
            match in_shuttle(sc.sched.shuttle_seed, move || {
                let mut r = RunReport::default();
                one_pass::<T, F>(&scc, &mut r, first);
                r
            }) {
                Ok(r) => sub = r,
                Err(p) => sub.violate(sc, "PANIC", &format!("concurrent@{}", panic_site(&p)), p),
            }
            sub.probe("runs_with_concurrent_callers");
        } else {
            one_pass::<T, F>(sc, &mut sub, pass == 0);
        }
        alloc::off();
        rep.executions += 1;
        rep.events += sub.events;
        if pass == 0 {
            rep.signatures = sub.signatures.clone();
            rep.probes = sub.probes.clone();
            rep.violations = sub.violations.clone();
            rep.digest = sub.digest;
            rep.sample = sub.sample.clone();
        } else {
            for v in sub.violations {
                if !rep.violations.iter().any(|w| w.class == v.class && w.site == v.site) {
                    rep.violations.push(v);
                }
            }
        }
        digests.push((*fill, sub.digest, sub.sample.map(|s| s.to_string()).unwrap_or_default()));
    }
    for w in digests.windows(2) {
        if w[0].1 != w[1].1 {
            rep.violate(
                sc,
                "HEAP_DEPENDENCE",
                "observable-state",
                format!(
                    "observable outputs differ between heap fill 0x{:02x} and 0x{:02x}",
                    w[0].0, w[1].0
                ),
            );
        }
    }
    rep.probe_n("heap_patterns", fills.len() as u64);
    rep
}

fn one_pass<T: Sc, F: Factory<T>>(sc: &Scenario, rep: &mut RunReport, first: bool) {
    let real_before = rayon_core::sim::REAL_POOL_ENTRIES.load(std::sync::atomic::Ordering::SeqCst);
    let exec = Exec::new(&sc.sched);
    exec.install();
    let ctl = Arc::new(Ctl::new(sc.faults.clone()));
    ctl.set_overlap(sc.variant == "concurrent");
    let mut r = Runner::<T, F>::start(sc, ctl.clone());
    if let Some(p) = &r.build_panic {
        rep.violate(sc, "PANIC", &format!("build@{}", panic_site(p)), p.clone());
    }
    expect_built(sc, rep, &r.build, r.build_panic.is_some(), "");
    r.run_ops(&sc.ops);
    rep.events = ctl.seq();
    let log = ctl.log();

    // digest of everything observable
    for st in &r.steps {
        rep.eat(st.op as u64);
        match &st.snap {
            Some(s) => {
                rep.eat_bits(&s.params);
                rep.eat(s.resid.is_some() as u64);
                if let Some(b) = &s.resid {
                    rep.eat_bits(b);
                }
                if let Some(b) = &s.coeff {
                    rep.eat_bits(b);
                }
            }
            None => rep.eat(0xdead),
        }
        match &st.extra {
            Extra::Jac(j) => {
                rep.eat(j.bits.is_some() as u64);
                if let Some(b) = &j.bits {
                    rep.eat_bits(b);
                }
            }
            Extra::Fit(f) => {
                rep.eat_str(&f.termination);
                rep.eat(f.evaluations as u64);
                rep.eat(f.objective.bits());
                rep.eat_bits(&f.nl_params);
            }
            Extra::WeightedData { bits, .. } => rep.eat_bits(bits),
            Extra::Concurrent { reference, observed, .. } => {
                for o in std::iter::once(&Ok(reference.clone())).chain(observed.iter()) {
                    match o {
                        Ok((s, j)) => {
                            rep.eat_bits(&s.params);
                            if let Some(b) = &s.resid {
                                rep.eat_bits(b);
                            }
                            rep.eat(j.bits.is_some() as u64);
                            if let Some(b) = &j.bits {
                                rep.eat_bits(b);
                            }
                        }
                        Err(e) => rep.eat_str(e),
                    }
                }
            }
            Extra::Clone { snap, jac, .. } => {
                rep.eat_bits(&snap.params);
                if let Some(b) = &jac.bits {
                    rep.eat_bits(b);
                }
            }
            _ => {}
        }
        if let Some(p) = &st.panic {
            rep.eat_str(p);
        }
    }
    // the order of model calls is part of what must not depend on the heap - unless the library
    // ran part of its work on real threads (it entered the real rayon pool), where that order
    // is not the simulator's: then only the multiset of calls is compared
    let real_now = rayon_core::sim::REAL_POOL_ENTRIES.load(std::sync::atomic::Ordering::SeqCst);
    if real_now != real_before {
        // (not even which of the concurrent calls met a persistent failure first is stable)
        rep.probe("passes_with_real_pool_threads");
        rep.eat(log.len().min(1) as u64);
    } else {
        rep.eat(crate::ctl::log_digest(&log));
    }

    // ---- oracles ----
    let mut had_other_alpha = false;
    let mut had_failed_update = false;
    let mut first_params: Option<Vec<u64>> = None;
    let mut prev_snap: Option<Snap> = None;
    let mut prev_jac: Option<JacObs> = None;
    let mut sig = String::new();
    let mut compared = 0u64;
    let mut prev_kinds: Vec<&'static str> = vec!["build"];
    // is the cache in effect the product of a fault-free update?
    let mut state_clean = true;
    // flavour that computed the cache in effect (a conversion changes the flavour, not the cache)
    let mut cache_par = sc.parallel;
    let mut cur_par = sc.parallel;
    if r.build.is_ok() {
        let bf = log[..r.build_events.min(log.len())]
            .iter()
            .any(|e| e.fault.is_some());
        if bf {
            had_failed_update = true;
            state_clean = false;
        }
    }
    for st in &r.steps {
        let op = &sc.ops[st.op];
        let name = op_name(op);
        if let Some(p) = &st.panic {
            rep.violate(sc, "PANIC", &format!("{}@{}", name, panic_site(p)), p.clone());
            break;
        }
        let Some(snap_now) = &st.snap else { break };
        let evs = &log[st.ev_from.min(log.len())..st.ev_to.min(log.len())];
        let faulted = evs.iter().any(|e| e.fault.is_some());
        if first_params.is_none() {
            first_params = Some(snap_now.params.clone());
        }
        match op {
            Op::SetParams(a) => {
                prev_jac = None;
                state_clean = !faulted;
                if faulted {
                    had_failed_update = true;
                    rep.probe("failed_update_in_history");
                    // whatever the problem still reports after the failed update must be a
                    // function of the parameters it reports (e.g. a model that stored the
                    // new vector before failing: values of the previous vector are garbage)
                    if snap_now.resid.is_some() || snap_now.coeff.is_some() {
                        rep.probe("values_present_after_failed_update");
                        let alpha: Vec<T> = snap_now.params.iter().map(|b| T::of_bits(*b)).collect();
                        if let Ok(Ok(fr)) = guarded(|| fresh::<T, F>(&r.world, &alpha, st.par_after, false)) {
                            compared += 1;
                            if fr.snap.resid != snap_now.resid || fr.snap.coeff != snap_now.coeff {
                                rep.violate(sc, "HISTORY_DEPENDENCE", "SetParams/failed-update", format!("after the failed update at op {} the problem reports residuals/coefficients that are not those of a fresh problem at the parameters it reports", st.op));
                            }
                        }
                    }
                } else {
                    // compare with a freshly built problem at the α the problem reports
                    let alpha: Vec<T> = a.iter().map(|v| T::of(v.0)).collect();
                    match guarded(|| fresh::<T, F>(&r.world, &alpha, st.par_after, false)) {
                        Ok(Ok(fr)) => {
                            compared += 1;
                            if fr.snap != *snap_now {
                                let what = if fr.snap.params != snap_now.params {
                                    "params"
                                } else if fr.snap.resid.is_some() != snap_now.resid.is_some() {
                                    "presence"
                                } else if fr.snap.resid != snap_now.resid {
                                    "residuals"
                                } else {
                                    "coefficients"
                                };
                                rep.violate(
                                    sc,
                                    "HISTORY_DEPENDENCE",
                                    &format!("SetParams/{what}"),
                                    format!(
                                        "after op {} (SetParams) the problem differs from a fresh problem at the same α in {what}",
                                        st.op
                                    ),
                                );
                            }
                            if snap_now.resid.is_none() {
                                rep.probe("cache_empty_after_clean_update");
                                // why: non-finite basis at these parameters, or a decomposition
                                // the library rejected (non-finite singular values / no convergence)
                                let pw = crate::refmath::phi_w::<T>(&r.world.spec, &r.world.x, r.world.w.as_ref(), &alpha);
                                if pw.iter().all(|v| v.f().is_finite()) {
                                    rep.probe("cache_emptied_by_rejected_decomposition");
                                } else {
                                    rep.probe("cache_emptied_by_nonfinite_basis");
                                }
                            }
                            let pk = prev_kinds[prev_kinds.len().saturating_sub(2)..].join(">");
                            sig.push_str(&format!(
                                "[{}|{}|{}|{}]",
                                st.op.min(12),
                                pk,
                                prev_snap.as_ref().map(|s| s.resid.is_some()).unwrap_or(true),
                                had_failed_update
                            ));
                        }
                        Ok(Err(e)) => rep.eat_str(&e),
                        Err(p) => rep.violate(sc, "PANIC", &format!("fresh@{}", panic_site(&p)), p),
                    }
                    if first_params.as_ref() != Some(&snap_now.params) {
                        had_other_alpha = true;
                    }
                }
            }
            Op::Jacobian => {
                if let Extra::Jac(j) = &st.extra {
                    if !faulted {
                        // fresh problem at the reported α
                        let alpha: Vec<T> = snap_now.params.iter().map(|b| T::of_bits(*b)).collect();
                        // only meaningful if the current cache belongs to a clean update
                        if state_clean && cache_par == st.par_after {
                            if let Ok(Ok(fr)) = guarded(|| fresh::<T, F>(&r.world, &alpha, st.par_after, true)) {
                                compared += 1;
                                if fr.jac.as_ref() != Some(j) {
                                    rep.violate(
                                        sc,
                                        "HISTORY_DEPENDENCE",
                                        "Jacobian",
                                        format!("Jacobian at op {} differs from the Jacobian of a fresh problem at the same α", st.op),
                                    );
                                }
                            }
                        }
                        if let Some(pj) = &prev_jac {
                            if pj != j {
                                rep.violate(sc, "UNSTABLE_QUERY", "Jacobian", format!("two Jacobian queries without an update in between differ (op {})", st.op));
                            }
                        }
                        prev_jac = Some(j.clone());
                    }
                }
            }
            Op::Fit | Op::FitWithStatistics => {
                prev_jac = None;
                had_other_alpha = true;
                if let Extra::Fit(f) = &st.extra {
                    rep.probe("fit_in_history");
                    // a fit that stopped before its first trial step applied no parameters
                    if f.evaluations > 1 {
                        state_clean = !faulted;
                    }
                    if !faulted && f.ok && state_clean {
                        let alpha: Vec<T> = snap_now.params.iter().map(|b| T::of_bits(*b)).collect();
                        if let Ok(Ok(fr)) = guarded(|| fresh::<T, F>(&r.world, &alpha, false, false)) {
                            compared += 1;
                            // the state was computed by the flavour the fit ran on; the reference is sequential
                            if fr.snap.params != snap_now.params || agree_with_reference::<T>(&r.world, &fr.snap, snap_now, !(if f.evaluations > 1 { f.was_parallel } else { cache_par })) == Agree::No {
                                rep.violate(sc, "HISTORY_DEPENDENCE", "Fit", format!("state after a successful fit (op {}) differs from a fresh problem at the fitted α", st.op));
                            }
                        }
                    }
                    if faulted {
                        had_failed_update = true;
                    }
                }
            }
            Op::Marathon { count, alphas } => {
                prev_jac = None;
                state_clean = !faulted;
                rep.probe("marathons");
                rep.probe_n("marathon_updates", *count as u64);
                if let (Some(a), false) = (marathon_last(*count, alphas), faulted) {
                    had_other_alpha = true;
                    let alpha: Vec<T> = a.iter().map(|v| T::of(v.0)).collect();
                    match guarded(|| fresh::<T, F>(&r.world, &alpha, st.par_after, false)) {
                        Ok(Ok(fr)) => {
                            compared += 1;
                            if fr.snap != *snap_now {
                                rep.violate(sc, "HISTORY_DEPENDENCE", "Marathon", format!("after {count} consecutive updates (op {}) the problem differs from a fresh problem at the parameters applied last", st.op));
                            }
                            sig.push_str(&format!("[marathon{}]", (*count as f64).log2() as u32));
                        }
                        Ok(Err(e)) => rep.eat_str(&e),
                        Err(p) => rep.violate(sc, "PANIC", &format!("fresh@{}", panic_site(&p)), p),
                    }
                }
            }
            Op::ConcurrentQueries(_) => {
                if let Extra::Concurrent { reference, .. } = &st.extra {
                    concurrent_rule(sc, rep, st, &log, "UNSTABLE_QUERY", "ConcurrentQueries");
                    if !faulted {
                        if let Some(pj) = &prev_jac {
                            if pj != &reference.1 {
                                rep.violate(sc, "UNSTABLE_QUERY", "Jacobian", format!("two Jacobian queries without an update in between differ (op {})", st.op));
                            }
                        }
                        prev_jac = Some(reference.1.clone());
                    }
                }
            }
            Op::IntoSequential | Op::IntoParallel => {
                // the Jacobian is computed by another implementation from here on: equality
                // across the conversion is C11's subject (toleranced), not a re-query
                prev_jac = None;
            }
            Op::CloneAndCompare => {
                if let Extra::Clone { snap: cs, jac, orig_jac } = &st.extra {
                    if cs != snap_now || (!faulted && jac != orig_jac) {
                        rep.violate(sc, "HISTORY_DEPENDENCE", "Clone", format!("clone at op {} reports a different state than the original", st.op));
                    }
                    rep.probe("clone_compared");
                }
            }
            _ => {}
        }
        match op {
            Op::SetParams(_) | Op::Marathon { .. } => cache_par = cur_par,
            Op::Fit | Op::FitWithStatistics => {
                if let Extra::Fit(f) = &st.extra {
                    if f.evaluations > 1 {
                        cache_par = f.was_parallel;
                    }
                }
            }
            _ => {}
        }
        cur_par = st.par_after;
        // non-updating ops must not change what the problem reports
        if !is_update(op) {
            if let Some(ps) = &prev_snap {
                if ps != snap_now {
                    rep.violate(sc, "UNSTABLE_QUERY", name, format!("op {} ({}) changed the reported state", st.op, name));
                }
            }
        }
        prev_snap = Some(snap_now.clone());
        prev_kinds.push(name);
    }
    rep.probe_n("fresh_comparisons", compared);
    if ctl.cap_hit() {
        rep.probe("event_cap_hit");
    }
    rep.probe_n("faults_fired", ctl.fired());
    for e in &log {
        if e.fault.is_some() {
            rep.probe(&format!("fault_{}", e.kind.class()));
        }
    }
    if compared > 0 && (had_other_alpha || had_failed_update) {
        rep.signatures = vec![format!("{:?}|{}|{}", F::KIND, sc.parallel, sig)];
    }
    Exec::uninstall();
    let est = exec.stats();
    rep.probe_n("sched_joins", est.joins);
    rep.probe_n("sched_stolen", est.late + est.early + est.overlap);
    if first {
        rep.sample = Some(serde_json::json!({
            "model": format!("{:?}", sc.model.funcs.iter().map(|f| (f.family, f.params.clone())).collect::<Vec<_>>()),
            "kind": format!("{:?}", sc.model.kind), "width": format!("{:?}", sc.width),
            "N": sc.n(), "S": sc.s(), "parallel": sc.parallel, "mrhs": sc.mrhs,
            "ops": sc.ops.iter().map(op_name).collect::<Vec<_>>(),
            "faults": sc.faults.iter().map(|f| format!("{:?}", f)).collect::<Vec<_>>(),
            "model_events": ctl.seq(),
            "fresh_comparisons": compared,
        }));
    }
}
