//! C06 — weights act as row scaling of model and data, applied exactly once.
//!
//! Twin worlds from one scenario: A = (model, Y, weights w); B = (model whose basis
//! functions and derivatives have row i multiplied by w_i, w∘Y, no weights). Both are driven
//! along the same history: a caller-driven script, then A's optimizer run through the tap with
//! B slaved to it step by step, then an independent fit_with_statistics on each. Further
//! twins: all-ones weights vs. no weights; zero weight on a row vs. that row deleted.

use super::common::*;
use crate::ctl::Ctl;
use crate::executor::Exec;
use crate::gen::*;
use crate::prng::{mix, Rng};
use crate::prob::TapKind;
use crate::refmath::{self, M64};
use crate::report::{panic_site, RunReport};
use crate::run::*;
use crate::sc::{mat_bits, vec_bits, Sc};
use crate::spec::*;
use nalgebra::DVector;
use std::sync::Arc;

pub fn generate(seed: u64, index: u64, thorough: bool) -> Scenario {
    let mut rng = Rng::new(mix(seed, "C06", index));
    let kind = if rng.chance(0.3) {
        ModelKind::Builder
    } else {
        ModelKind::Hand
    };
    let sizes = pick_sizes(&mut rng, thorough, if thorough { 0.35 } else { 0.2 });
    let parallel = rng.chance(0.2);
    let start = *rng.pick(&[Start::Near, Start::Mid, Start::Mid, Start::Far]);
    let noise = *rng.pick(&[1e-3, 5e-2, 0.3, 0.0]);
    let (mut sc, d) = base_scenario(&mut rng, "C06", seed, index, kind, sizes, parallel, start, noise);
    // the variant decides which twin is built
    let v = rng.weighted(&[6.0, 1.5, 2.5]);
    sc.variant = ["row-scaling", "unit-weights", "zero-weight"][v].into();
    let n = sc.n();
    match v {
        0 => {
            let wk = *rng.pick(&[
                WeightKind::Mild,
                WeightKind::Mild,
                WeightKind::Wide,
                WeightKind::WithZeros,
                WeightKind::WithNegatives,
                WeightKind::Constant,
            ]);
            let mut w = gen_weights(&mut rng, wk, n, sc.width).unwrap();
            if wk == WeightKind::Wide && rng.chance(0.5) {
                // 10^-6 .. 10^6
                for x in w.iter_mut() {
                    *x = rw(sc.width, x.signum() * x.abs().powi(2));
                }
            }
            sc.weights = Some(fxs(&w));
        }
        1 => sc.weights = Some(fxs(&vec![1.0; n])),
        _ => {
            let mut w = gen_weights(&mut rng, WeightKind::Mild, n, sc.width).unwrap();
            // exactly one zero weight; keep the problem over-determined without that row
            let i = rng.usize_in(0, n - 1);
            w[i] = 0.0;
            sc.weights = Some(fxs(&w));
        }
    }
    sc.opt.patience = sc.opt.patience.min(20);
    sc.ops = gen_script(
        &mut rng,
        &sc,
        &d,
        ScriptCfg {
            min_ops: 1,
            max_ops: 6,
            allow_extreme: false,
            p_fit: 0.0,
            allow_clone: false,
            allow_into_seq: true,
            allow_band: false,
        },
    );
    if !sc.ops.iter().any(|o| matches!(o, Op::Jacobian)) {
        sc.ops.push(Op::Jacobian);
    }
    sc.ops.push(if sc.mrhs { Op::Fit } else { Op::FitWithStatistics });
    sc
}

/// scenarios the shrinker may produce must still describe the twin they claim to
pub fn valid(sc: &Scenario) -> bool {
    let Some(w) = &sc.weights else { return false };
    if w.len() != sc.n() || sc.n() < 2 {
        return false;
    }
    match sc.variant.as_str() {
        "zero-weight" => w.iter().filter(|v| v.0 == 0.0).count() == 1,
        "unit-weights" => w.iter().all(|v| v.0 == 1.0),
        _ => true,
    }
}

pub fn execute(sc: &Scenario) -> RunReport {
    if !valid(sc) {
        return RunReport::default();
    }
    crate::props::dispatch!(sc, exec_t)
}

fn to_t<T: Sc>(bits: &[u64]) -> Vec<T> {
    bits.iter().map(|b| T::of_bits(*b)).collect()
}

/// the twin world of `a` for the scenario's variant; returns (world B, deleted row)
fn twin_world<T: Sc>(sc: &Scenario, a: &World<T>) -> (World<T>, Option<usize>) {
    let n = a.n();
    match sc.variant.as_str() {
        "unit-weights" => (
            World {
                spec: a.spec.clone(),
                x: a.x.clone(),
                y: a.y.clone(),
                w: None,
                eps: a.eps,
                alpha0: a.alpha0.clone(),
                mrhs: a.mrhs,
                parallel: a.parallel,
                opt: a.opt.clone(),
                row_scale: None,
                builder_order: a.builder_order,
            },
            None,
        ),
        "zero-weight" => {
            let w = a.w.as_ref().unwrap();
            let i = (0..n).find(|i| w[*i].f() == 0.0).unwrap_or(0);
            debug_assert!(valid(sc));
            let keep: Vec<usize> = (0..n).filter(|k| *k != i).collect();
            (
                World {
                    spec: a.spec.clone(),
                    x: DVector::from_iterator(n - 1, keep.iter().map(|k| a.x[*k])),
                    y: a.y.select_rows(keep.iter()),
                    w: Some(DVector::from_iterator(n - 1, keep.iter().map(|k| w[*k]))),
                    eps: a.eps,
                    alpha0: a.alpha0.clone(),
                    mrhs: a.mrhs,
                    parallel: a.parallel,
                    opt: a.opt.clone(),
                    row_scale: None,
                    builder_order: a.builder_order,
                },
                Some(i),
            )
        }
        _ => {
            let w = a.w.as_ref().unwrap();
            (
                World {
                    spec: a.spec.clone(),
                    x: a.x.clone(),
                    y: a.weighted_y(),
                    w: None,
                    eps: a.eps,
                    alpha0: a.alpha0.clone(),
                    mrhs: a.mrhs,
                    parallel: a.parallel,
                    opt: a.opt.clone(),
                    row_scale: Some(Arc::new(w.iter().copied().collect())),
                    builder_order: a.builder_order,
                },
                None,
            )
        }
    }
}

struct Cmp {
    /// everything compared so far was bitwise equal
    bitwise: bool,
    /// condition number of W.Phi at the last update (f64 reference), for the gates
    kappa: f64,
    /// magnitude of the terms the residuals are formed from: max |Yw| + max_i sum_j |Phiw_ij|*max|C|
    /// is not known before the coefficients are; we use max|Yw| * (1 + kappa-free factor) and
    /// max|W.D_k| for the Jacobian, both from the reference mathematics
    yw_scale: f64,
    phiw_scale: f64,
    dw_scale: f64,
    /// largest coefficient magnitude seen at the last state comparison
    cmax_last: f64,
    /// reconstruction errors of nalgebra's SVD of W.Phi for the two twins at the parameters
    /// in effect (diagnosis of the known third-party defect)
    svd_err: (f64, f64),
    /// the truncation threshold is in play (a singular value at or below ~epsilon): the
    /// truncated solution depends discontinuously on rounding, toleranced comparisons between
    /// differently computed twins are meaningless there (bitwise ones are not affected)
    trunc: bool,
}

impl Cmp {
    /// class and site under which a toleranced mismatch is reported
    fn classify<T: Sc>(&self, class: &str, site: &str, detail: String) -> (String, String, String) {
        let thr = refmath::svd_bad_threshold::<T>();
        if self.svd_err.0 > thr || self.svd_err.1 > thr {
            (
                "SVD_INACCURATE".into(),
                "nalgebra-svd".into(),
                format!("nalgebra's SVD of the weighted basis matrix does not reconstruct its input (relative error {:e} for twin A, {:e} for twin B; a correct SVD stays below {:e}); consequence observed at {site}: {detail}", self.svd_err.0, self.svd_err.1, thr),
            )
        } else {
            (class.into(), site.into(), detail)
        }
    }
}

/// element-wise comparison `a ≈ b` with a bound relative to `scale` (the magnitude of the
/// quantities the values were computed from — not of the values themselves, which may be
/// pure rounding noise after cancellation) or, if larger, to the vectors' own magnitude
fn close_vec<T: Sc>(a: &[T], b: &[T], rel: f64, scale: f64) -> Option<String> {
    if a.len() != b.len() {
        return Some(format!("lengths differ: {} vs {}", a.len(), b.len()));
    }
    let scale = a
        .iter()
        .chain(b.iter())
        .map(|v| v.f().abs())
        .filter(|v| v.is_finite())
        .fold(scale, f64::max);
    for (k, (x, y)) in a.iter().zip(b.iter()).enumerate() {
        let (x, y) = (x.f(), y.f());
        if x == y || !x.is_finite() || !y.is_finite() {
            // exactly equal, or overflowed in at least one twin: an overflow's sign and
            // whether it happens at all are rounding-level effects, nothing to compare
            continue;
        }
        if !((x - y).abs() <= rel * scale + 8.0 * T::tiny()) {
            return Some(format!("element {k}: {x:e} vs {y:e} (scale {scale:e}, allowed relative deviation {rel:e})"));
        }
    }
    None
}

/// refresh the gates and scales for the parameters now in effect
fn refresh<T: Sc>(c: &mut Cmp, w: &World<T>, wb: &World<T>, params: &[T]) {
    c.kappa = kappa_of(w, params);
    {
        let a = M64::from_t(&refmath::phi_w::<T>(&w.spec, &w.x, w.w.as_ref(), params));
        let eps = w.eps.map(|e| e.f().abs()).unwrap_or(2.0 * T::u());
        c.trunc = match refmath::singular_values(&a) {
            Some(sv) => sv.iter().any(|s| *s <= 4.0 * eps || *s < refmath::underflow_range::<T>()),
            None => true,
        };
    }
    let ea = refmath::svd_reconstruction_error(&refmath::phi_w::<T>(&w.spec, &w.x, w.w.as_ref(), params)).unwrap_or(0.0);
    let pb = {
        // twin B's matrix: its model may carry the row scaling
        let mut p = refmath::phi_w::<T>(&wb.spec, &wb.x, wb.w.as_ref(), params);
        if let Some(rs) = &wb.row_scale {
            for j in 0..p.ncols() {
                for i in 0..p.nrows().min(rs.len()) {
                    p[(i, j)] = rs[i] * p[(i, j)];
                }
            }
        }
        p
    };
    let eb = refmath::svd_reconstruction_error(&pb).unwrap_or(0.0);
    c.svd_err = (ea, eb);
    c.yw_scale = w.weighted_y().iter().map(|v| v.f().abs()).filter(|v| v.is_finite()).fold(0.0, f64::max);
    let wabs = |i: usize| w.w.as_ref().map(|x| x[i].f().abs()).unwrap_or(1.0);
    let phi = refmath::phi::<T>(&w.spec, &w.x, params);
    let mut ps = 0.0f64;
    for i in 0..phi.nrows() {
        let mut row = 0.0;
        for j in 0..phi.ncols() {
            row += (phi[(i, j)].f() * wabs(i)).abs();
        }
        if row.is_finite() {
            ps = ps.max(row);
        }
    }
    c.phiw_scale = ps;
    let mut ds = 0.0f64;
    for k in 0..w.p() {
        let d = refmath::dphi::<T>(&w.spec, k, &w.x, params);
        for i in 0..d.nrows() {
            let mut row = 0.0;
            for j in 0..d.ncols() {
                row += (d[(i, j)].f() * wabs(i)).abs();
            }
            if row.is_finite() {
                ds = ds.max(row);
            }
        }
    }
    c.dw_scale = ds;
}

/// condition number of H = W.[Phi | (dPhi/dalpha_k) c] (f64 reference)
fn kappa_h<T: Sc>(w: &World<T>, params: &[T], c: &[T]) -> f64 {
    let (n, m, p) = (w.n(), w.m(), w.p());
    if c.len() != m {
        return f64::INFINITY;
    }
    let wf = |i: usize| w.w.as_ref().map(|x| x[i].f()).unwrap_or(1.0);
    let phi = refmath::phi::<T>(&w.spec, &w.x, params);
    let mut h = M64::zeros(n, m + p);
    for i in 0..n {
        for j in 0..m {
            h.set(i, j, wf(i) * phi[(i, j)].f());
        }
    }
    for k in 0..p {
        let d = refmath::dphi::<T>(&w.spec, k, &w.x, params);
        for i in 0..n {
            let mut v = 0.0;
            for j in 0..m {
                v += d[(i, j)].f() * c[j].f();
            }
            h.set(i, m + k, wf(i) * v);
        }
    }
    // (no equilibration: the inversion in the statistics works on the raw H^T H)
    match refmath::singular_values(&h) {
        Some(sv) if *sv.last().unwrap() > 0.0 => sv[0] / sv.last().unwrap(),
        _ => f64::INFINITY,
    }
}

fn kappa_of<T: Sc>(w: &World<T>, params: &[T]) -> f64 {
    if crate::model::TRACE.load(std::sync::atomic::Ordering::Relaxed) {
        let phi = refmath::phi::<T>(&w.spec, &w.x, params);
        let mut a = M64::from_t(&phi);
        if let Some(wt) = &w.w {
            for j in 0..a.c {
                for i in 0..a.r {
                    let v = a.at(i, j) * wt[i].f();
                    a.set(i, j, v);
                }
            }
        }
        let y = M64::from_t(&w.weighted_y());
        if let Some(c) = refmath::lstsq(&a, &y, 1e-14) {
            eprintln!("   reference coeff at {:?}: {:?}", params.iter().map(|v| v.f()).collect::<Vec<_>>(), c.d);
        }
    }
    let phi = refmath::phi::<T>(&w.spec, &w.x, params);
    let mut a = M64::from_t(&phi);
    if let Some(wt) = &w.w {
        for j in 0..a.c {
            for i in 0..a.r {
                let v = a.at(i, j) * wt[i].f();
                a.set(i, j, v);
            }
        }
    }
    match refmath::singular_values(&a) {
        Some(sv) if *sv.last().unwrap() > 0.0 => sv[0] / sv.last().unwrap(),
        _ => f64::INFINITY,
    }
}

#[allow(clippy::too_many_arguments)]
fn cmp_state<T: Sc>(
    sc: &Scenario,
    rep: &mut RunReport,
    c: &mut Cmp,
    class: &str,
    site: &str,
    sa: &Snap,
    sb: &Snap,
    deleted: Option<usize>,
    n: usize,
) {
    if sa.params != sb.params {
        rep.violate(sc, class, &format!("{site}/params"), "the twins report different parameters".into());
        return;
    }
    if sa.resid.is_some() != sb.resid.is_some() {
        // only one of the twins has a state: legitimate only for non-finite/ill-posed bases
        if c.kappa.is_finite() && c.kappa < kmax::<T>() {
            rep.violate(sc, class, &format!("{site}/presence"), "one twin exposes residuals/coefficients, the other does not".into());
        } else {
            rep.probe("gated_out_presence");
        }
        return;
    }
    let (Some(ra), Some(rb), Some(ca), Some(cb)) = (&sa.resid, &sb.resid, &sa.coeff, &sb.coeff) else {
        return;
    };
    if deleted.is_none() && ra == rb && ca == cb {
        rep.probe("twin_state_bitwise_equal");
        return;
    }
    c.bitwise = false;
    if c.trunc {
        rep.probe("gated_out_truncation_in_play");
        return;
    }
    // least-squares perturbation theory: errors grow like kappa (zero residual) up to
    // kappa^2 (large residual); compare only where that leaves a meaningful tolerance
    let rel = (64.0 * (n as f64 + 8.0) * T::u() + floor::<T>()) * c.kappa.max(1.0).powi(2);
    if !(rel < 2e-2) {
        rep.probe("gated_out_ill_conditioned");
        return;
    }
    rep.probe("toleranced_state_comparisons");
    if crate::model::TRACE.load(std::sync::atomic::Ordering::Relaxed) {
        eprintln!("cmp_state {site}: kappa={:e} rel={:e}", c.kappa, rel);
        eprintln!("   A coeff {:?}", to_t::<T>(ca).iter().map(|v| v.f()).collect::<Vec<_>>());
        eprintln!("   B coeff {:?}", to_t::<T>(cb).iter().map(|v| v.f()).collect::<Vec<_>>());
    }
    let ca_t: Vec<T> = to_t(ca);
    let cb_t: Vec<T> = to_t(cb);
    let cmax = ca_t.iter().chain(cb_t.iter()).map(|v| v.f().abs()).filter(|v| v.is_finite()).fold(0.0f64, f64::max);
    // coefficients live on the scale ||Yw|| / sigma_min; kappa is already in `rel`
    let c_scale = if c.phiw_scale > 0.0 { c.yw_scale / c.phiw_scale } else { 0.0 };
    let r_scale = c.yw_scale + c.phiw_scale * cmax;
    if !ca_t.is_empty() {
        c.cmax_last = cmax;
    }
    let r_scale = if ca_t.is_empty() { c.yw_scale + c.phiw_scale * c.cmax_last } else { r_scale };
    if let Some(e) = close_vec(&ca_t, &cb_t, rel, c_scale) {
        let (cl, si, de) = c.classify::<T>(class, &format!("{site}/coeff"), format!("coefficients of the twins differ: {e}"));
        rep.violate(sc, &cl, &si, de);
    }
    let ra_t: Vec<T> = to_t(ra);
    let rb_t: Vec<T> = to_t(rb);
    match deleted {
        None => {
            if let Some(e) = close_vec(&ra_t, &rb_t, rel, r_scale) {
                let (cl, si, de) = c.classify::<T>(class, &format!("{site}/resid"), format!("residuals of the twins differ: {e}"));
                rep.violate(sc, &cl, &si, de);
            }
        }
        Some(i) => {
            // A has N rows per right-hand side, B has N-1
            let s = ra_t.len() / n.max(1);
            let mut a_kept = vec![];
            for col in 0..s {
                for k in 0..n {
                    let v = ra_t[col * n + k];
                    if k == i {
                        // (with non-finite coefficients 0*inf = NaN is legitimate)
                        if v.f() != 0.0 && ra_t.iter().all(|x| x.f().is_finite()) {
                            rep.violate(sc, "ZERO_WEIGHT_INFLUENCE", &format!("{site}/resid"), format!("the residual of the zero-weight sample is {:e}, not 0", v.f()));
                        }
                    } else {
                        a_kept.push(v);
                    }
                }
            }
            if let Some(e) = close_vec(&a_kept, &rb_t, rel, r_scale) {
                let (cl, si, de) = c.classify::<T>("ZERO_WEIGHT_INFLUENCE", &format!("{site}/resid"), format!("residuals with a zero-weight sample differ from those without the sample: {e}"));
                rep.violate(sc, &cl, &si, de);
            }
        }
    }
}

/// Accuracy actually delivered by the decomposition the library uses: nalgebra's SVD-based
/// solve agrees with an accurate least-squares solution only to about 1e-10 (f64) even for
/// condition numbers near 1 (measured; closed-form 2x2 steps). Toleranced comparisons between
/// *differently shaped* problems cannot demand more than that; the floor is far below the
/// effect of any misapplied weight.
fn floor<T: Sc>() -> f64 {
    if T::NAME == "f64" {
        1e-8
    } else {
        2e-3
    }
}

fn kmax<T: Sc>() -> f64 {
    if T::NAME == "f64" {
        1e6
    } else {
        1e2
    }
}

#[allow(clippy::too_many_arguments)]
fn cmp_jac<T: Sc>(
    sc: &Scenario,
    rep: &mut RunReport,
    c: &mut Cmp,
    class: &str,
    site: &str,
    ja: &Option<Vec<u64>>,
    jb: &Option<Vec<u64>>,
    deleted: Option<usize>,
    n: usize,
    s: usize,
) {
    if ja.is_some() != jb.is_some() {
        if c.kappa < kmax::<T>() {
            rep.violate(sc, class, &format!("{site}/jac-presence"), "one twin returns a Jacobian, the other does not".into());
        }
        return;
    }
    let (Some(a), Some(b)) = (ja, jb) else { return };
    if deleted.is_none() && a == b {
        rep.probe("twin_jacobian_bitwise_equal");
        return;
    }
    c.bitwise = false;
    if c.trunc {
        rep.probe("gated_out_truncation_in_play");
        return;
    }
    let rel = (256.0 * (n as f64 + 8.0) * T::u() + 4.0 * floor::<T>()) * c.kappa.max(1.0).powi(2);
    if !(rel < 5e-2) {
        rep.probe("gated_out_ill_conditioned");
        return;
    }
    rep.probe("toleranced_jacobian_comparisons");
    let at: Vec<T> = to_t(a);
    let bt: Vec<T> = to_t(b);
    let a_cmp: Vec<T> = match deleted {
        None => at,
        Some(i) => {
            // drop row i of every right-hand-side block of every column
            let rows = n * s;
            let cols = at.len() / rows.max(1);
            let mut v = vec![];
            for col in 0..cols {
                for r in 0..rows {
                    if r % n != i {
                        v.push(at[col * rows + r]);
                    }
                }
            }
            v
        }
    };
    // Jacobian columns are differences of terms of magnitude |W.D_k|.|C|
    // and the coefficients themselves are only known to (tolerance x ||Yw|| / ||W.Phi||): when
    // the data are nearly orthogonal to the basis, C is small by cancellation and its rounding
    // noise, not its size, sets the scale of the Jacobian's uncertainty
    let c_noise_scale = if c.phiw_scale > 0.0 { c.yw_scale / c.phiw_scale } else { 0.0 };
    let j_scale = c.dw_scale * c.cmax_last.max(c_noise_scale);
    if crate::model::TRACE.load(std::sync::atomic::Ordering::Relaxed) {
        eprintln!("cmp_jac {site}: j_scale={:e} dw={:e} cmax={:e}", j_scale, c.dw_scale, c.cmax_last);
        eprintln!("   A jac {:?}", a_cmp.iter().map(|v| v.f()).collect::<Vec<_>>());
        eprintln!("   B jac {:?}", bt.iter().map(|v| v.f()).collect::<Vec<_>>());
    }
    if let Some(e) = close_vec(&a_cmp, &bt, rel, j_scale) {
        let cl = if deleted.is_some() { "ZERO_WEIGHT_INFLUENCE" } else { class };
        let (cl, si, de) = c.classify::<T>(cl, &format!("{site}/jac"), format!("Jacobians of the twins differ: {e}"));
        rep.violate(sc, &cl, &si, de);
    }
}

fn exec_t<T: Sc, F: Factory<T>>(sc: &Scenario) -> RunReport {
    let mut rep = RunReport::default();
    rep.executions = 2;
    crate::ctl::set_current(sc);
    let class = match sc.variant.as_str() {
        "unit-weights" => "UNIT_WEIGHT_MISMATCH",
        "zero-weight" => "ZERO_WEIGHT_INFLUENCE",
        _ => "WEIGHT_TWIN_MISMATCH",
    };
    let exec = Exec::new(&sc.sched);
    exec.install();
    let wa = World::<T>::from_scenario(sc);
    let (wb, deleted) = twin_world(sc, &wa);
    let (n, s) = (wa.n(), wa.s());
    let ctl_a = Arc::new(Ctl::new(vec![]));
    let ctl_b = Arc::new(Ctl::new(vec![]));
    let n_pre = sc.ops.len() - 1;
    let mut ra = Runner::<T, F>::start_with_world(wa, ctl_a.clone());
    let mut rb = Runner::<T, F>::start_with_world(wb, ctl_b.clone());
    for (r, who) in [(&ra, "A"), (&rb, "B")] {
        if let Some(p) = &r.build_panic {
            rep.violate(sc, "PANIC", &format!("build{who}@{}", panic_site(p)), p.clone());
        }
    }
    // the twins are both well-formed problems: build() must treat them alike
    if ra.build_panic.is_none() && rb.build_panic.is_none() && ra.build.is_ok() != rb.build.is_ok() {
        let show = |r: &Result<(), String>| match r {
            Ok(()) => "Ok".to_string(),
            Err(e) => format!("Err({e})"),
        };
        rep.violate(sc, class, "build/outcome", format!("build() of the weighted problem: {}, of its twin: {}", show(&ra.build), show(&rb.build)));
    }
    if ra.build.is_ok() && rb.build.is_ok() {
        rep.probe("both_twins_built");
    }
    let mut c = Cmp {
        bitwise: true,
        kappa: f64::INFINITY,
        yw_scale: 0.0,
        phiw_scale: 0.0,
        dw_scale: 0.0,
        cmax_last: 0.0,
        svd_err: (0.0, 0.0),
        trunc: false,
    };
    let a0 = ra.world.alpha0.clone();
    refresh(&mut c, &ra.world, &rb.world, &a0);
    if let (Some(a), Some(b)) = (&ra.build_snap, &rb.build_snap) {
        cmp_state::<T>(sc, &mut rep, &mut c, class, "build", a, b, deleted, n);
    }
    // ---- caller-driven part, lock-step ----
    ra.run_ops(&sc.ops[..n_pre]);
    rb.run_ops(&sc.ops[..n_pre]);
    for (sa, sb) in ra.steps.iter().zip(rb.steps.iter()) {
        let op = &sc.ops[sa.op];
        let name = op_name(op);
        if let Some(p) = sa.panic.as_ref().or(sb.panic.as_ref()) {
            rep.violate(sc, "PANIC", &format!("{}@{}", name, panic_site(p)), p.clone());
            Exec::uninstall();
            return rep;
        }
        let (Some(a), Some(b)) = (&sa.snap, &sb.snap) else { break };
        if matches!(op, Op::SetParams(_)) {
            let params: Vec<T> = to_t(&a.params);
            refresh(&mut c, &ra.world, &rb.world, &params);
        }
        cmp_state::<T>(sc, &mut rep, &mut c, class, name, a, b, deleted, n);
        if let (Extra::Jac(ja), Extra::Jac(jb)) = (&sa.extra, &sb.extra) {
            cmp_jac::<T>(sc, &mut rep, &mut c, class, name, &ja.bits, &jb.bits, deleted, n, s);
        }
        rep.eat_bits(&a.params);
        if let Some(r) = &a.resid {
            rep.eat_bits(r);
        }
    }
    // ---- optimizer-driven part: A's optimizer through the tap, B slaved to it ----
    let mut steps_locked = 0u64;
    if let (Some(pa), Some(mut pb)) = (ra.subject.take(), rb.subject.take()) {
        let pa_for_fit = F::clone_prob(&pa);
        let rec = std::rc::Rc::new(std::cell::RefCell::new(vec![]));
        let cfg = ra.world.opt.clone();
        let rec2 = rec.clone();
        crate::ctl::set_phase("Fit(tapped twin A)");
        match guarded(move || pa.minimize_tapped(&cfg, rec2, None)) {
            Err(p) => rep.violate(sc, "PANIC", &format!("Fit@{}", panic_site(&p)), p),
            Ok((_pa_after, term, _ok, evals, _obj)) => {
                rep.eat_str(&term);
                rep.eat(evals as u64);
                let events = rec.borrow().clone();
                crate::ctl::set_phase("slaved twin B");
                for e in &events {
                    match &e.kind {
                        TapKind::SetParams(bits) => {
                            let a: Vec<T> = to_t(bits);
                            if crate::model::TRACE.load(std::sync::atomic::Ordering::Relaxed) {
                                eprintln!("tap SetParams {:?}", a.iter().map(|v| v.f()).collect::<Vec<_>>());
                            }
                            let v = DVector::from_column_slice(&a);
                            if let Err(p) = guarded(|| pb.set_params(&v)) {
                                rep.violate(sc, "PANIC", &format!("SetParams@{}", panic_site(&p)), p);
                                break;
                            }
                            refresh(&mut c, &ra.world, &rb.world, &a);
                            // the tap does not show A's coefficients: take the scale from B's
                            if let Some(cb) = pb.coeffs() {
                                c.cmax_last = cb.iter().map(|v| v.f().abs()).filter(|v| v.is_finite()).fold(0.0f64, f64::max);
                            }
                            steps_locked += 1;
                        }
                        TapKind::Residuals(ra_bits) => {
                            let rb_bits = pb.residuals().map(|r| vec_bits(&r));
                            if crate::model::TRACE.load(std::sync::atomic::Ordering::Relaxed) {
                                eprintln!("tap Residuals A={:?}", ra_bits.as_ref().map(|b| to_t::<T>(b).iter().take(4).map(|v| v.f()).collect::<Vec<_>>()));
                                eprintln!("    Residuals B={:?} at {:?}", rb_bits.as_ref().map(|b| to_t::<T>(b).iter().take(4).map(|v| v.f()).collect::<Vec<_>>()), pb.params().as_slice());
                                eprintln!("    B coeffs (varpro) {:?}", pb.coeffs().map(|c| c.as_slice().iter().map(|v| v.f()).collect::<Vec<_>>()));
                                let pp: Vec<T> = pb.params().iter().copied().collect();
                                let _ = kappa_of(&rb.world, &pp);
                                let _ = kappa_of(&ra.world, &pp);
                            }
                            // reuse cmp_state through synthetic snapshots
                            let mk = |r: &Option<Vec<u64>>, p: &AnyProbParams| Snap {
                                params: p.0.clone(),
                                resid: r.clone(),
                                coeff: r.as_ref().map(|_| vec![]),
                                coeff_shape: (0, 0),
                            };
                            let pp = AnyProbParams(vec_bits(&pb.params()));
                            let sa_ = mk(ra_bits, &pp);
                            let sb_ = mk(&rb_bits, &pp);
                            cmp_state::<T>(sc, &mut rep, &mut c, class, "Fit/step", &sa_, &sb_, deleted, n);
                        }
                        TapKind::Jacobian(ja_bits) => {
                            let jb_bits = pb.jacobian().map(|j| mat_bits(&j));
                            cmp_jac::<T>(sc, &mut rep, &mut c, class, "Fit/step", ja_bits, &jb_bits, deleted, n, s);
                        }
                        TapKind::Params(_) => {}
                    }
                }
            }
        }
        // ---- independent fits with statistics on both twins ----
        let pb_fresh = {
            let (wb2, _) = twin_world(sc, &ra.world);
            let ctl = Arc::new(Ctl::new(vec![]));
            let mut r2 = Runner::<T, F>::start_with_world(wb2, ctl);
            r2.run_ops(&sc.ops[..n_pre]);
            r2.subject.take()
        };
        let pa_fresh = match pa_for_fit {
            Some(p) => Some(p),
            None => {
                let wa2 = World::<T>::from_scenario(sc);
                let ctl = Arc::new(Ctl::new(vec![]));
                let mut r2 = Runner::<T, F>::start_with_world(wa2, ctl);
                r2.run_ops(&sc.ops[..n_pre]);
                r2.subject.take()
            }
        };
        if let (Some(pa2), Some(pb2)) = (pa_fresh, pb_fresh) {
            let cfg = ra.world.opt.clone();
            let cfg2 = cfg.clone();
            crate::ctl::set_phase("FitWithStatistics(A)");
            let fa = guarded(move || pa2.fit_with_statistics(&cfg));
            crate::ctl::set_phase("FitWithStatistics(B)");
            let fb = guarded(move || pb2.fit_with_statistics(&cfg2));
            match (fa, fb) {
                (Ok(fa), Ok(fb)) => {
                    rep.probe("independent_fits_compared");
                    let same_traj = c.bitwise && deleted.is_none();
                    if same_traj {
                        if fa.termination_successful != fb.termination_successful || fa.termination != fb.termination || fa.evaluations != fb.evaluations || vec_bits(&fa.nl_params) != vec_bits(&fb.nl_params) {
                            rep.violate(sc, class, "Fit/result", format!("independent fits of the twins differ although every intermediate state was bitwise equal: {} ({} evaluations) vs {} ({})", fa.termination, fa.evaluations, fb.termination, fb.evaluations));
                        }
                    } else if fa.termination_successful && fb.termination_successful && c.kappa < kmax::<T>() {
                        let (oa, ob) = (fa.objective.f(), fb.objective.f());
                        let tol = if T::NAME == "f64" { 1e-6 } else { 1e-2 };
                        if oa.is_finite() && ob.is_finite() && (oa - ob).abs() > tol * oa.abs().max(ob.abs()) + 1e-280 {
                            rep.probe("fit_objectives_differ_after_rounding");
                        }
                    }
                    if crate::model::TRACE.load(std::sync::atomic::Ordering::Relaxed) {
                        eprintln!("A: ok={} term={} evals={} nl={:?} coeffs={:?}", fa.ok, fa.termination, fa.evaluations, fa.nl_params.as_slice(), fa.coeffs.as_ref().map(|c| c.as_slice().to_vec()));
                        eprintln!("B: ok={} term={} evals={} nl={:?} coeffs={:?}", fb.ok, fb.termination, fb.evaluations, fb.nl_params.as_slice(), fb.coeffs.as_ref().map(|c| c.as_slice().to_vec()));
                        if let (Some(sa), Some(sb)) = (&fa.stats, &fb.stats) {
                            eprintln!("A chi2={} cov={:?}", sa.reduced_chi2, sa.covariance.as_slice());
                            eprintln!("B chi2={} cov={:?}", sb.reduced_chi2, sb.covariance.as_slice());
                        }
                    }
                    // statistics: reduced chi2 and covariance, gated on the conditioning of
                    // H = W.[Phi | D_k c] at the common optimum (the covariance is the inverse
                    // of H^T H: errors grow like kappa(H)^2)
                    // statistics are comparable only if both fits ended successfully at the
                    // same point (a rounding-level difference in the trajectory may end one fit
                    // with LostPatience exactly where the other converges)
                    let same_opt = vec_bits(&fa.nl_params) == vec_bits(&fb.nl_params)
                        && deleted.is_none()
                        && fa.termination_successful
                        && fb.termination_successful;
                    let kh = match (&fa.coeffs, same_opt) {
                        (Some(cf), true) => kappa_h(&ra.world, fa.nl_params.as_slice(), cf.as_slice()),
                        _ => f64::INFINITY,
                    };
                    let rel_h = (4096.0 * (n as f64 + 8.0) * T::u() + floor::<T>()) * kh.max(1.0).powi(2);
                    let mut continue_stats = true;
                    if let (Some(sa), Some(sb)) = (&fa.stats, &fb.stats) {
                        if same_opt && rel_h < 1e-2 {
                            let (xa, xb) = (sa.reduced_chi2.f(), sb.reduced_chi2.f());
                            let tol = 64.0 * n as f64 * T::u() * c.kappa.max(1.0).powi(2);
                            // chi2 = ||r||^2/dof with r = Yw - (W.Phi)C: each residual carries an
                            // absolute rounding error on the scale of its terms, so for (nearly)
                            // exact fits chi2 is itself rounding noise. The comparison is relative
                            // to the larger of chi2 and that noise level.
                            let cm = fa.coeffs.as_ref().map(|c| c.iter().map(|v| v.f().abs()).filter(|v| v.is_finite()).fold(0.0f64, f64::max)).unwrap_or(0.0);
                            let r_term = c.yw_scale + c.phiw_scale * cm;
                            let dof = (n as f64 - ra.world.m() as f64 - ra.world.p() as f64).max(1.0);
                            let rnorm_a = (xa.abs() * dof).sqrt();
                            let noise_r = 64.0 * (n as f64 + 8.0) * T::u() * r_term * (n as f64).sqrt();
                            // d(chi2) <= (2 ||r|| dr + dr^2)/dof
                            let chi_noise = (2.0 * rnorm_a * noise_r + noise_r * noise_r) / dof;
                            let chi_significant = xa.abs().max(xb.abs()) > 1e3 * chi_noise;
                            if tol < 1e-3 && xa.is_finite() && xb.is_finite() && (xa - xb).abs() > tol * xa.abs().max(xb.abs()) + chi_noise + 8.0 * T::tiny() {
                                rep.violate(sc, "WEIGHT_STATS_MISMATCH", "reduced_chi2", format!("reduced chi2 of the twins differ: {xa:e} vs {xb:e} (rounding noise level {chi_noise:e})"));
                            }
                            if !chi_significant {
                                // covariance = chi2 (H^T H)^-1 inherits the noise of chi2
                                rep.probe("gated_out_covariance");
                                continue_stats = false;
                            }
                            let ca: Vec<T> = if continue_stats { sa.covariance.iter().copied().collect() } else { vec![] };
                            let cb: Vec<T> = if continue_stats { sb.covariance.iter().copied().collect() } else { vec![] };
                            // the inverse of H^T H is accurate normwise, not entrywise
                            let d = if continue_stats { sa.covariance.nrows() } else { 0 };
                            let cmax = ca.iter().chain(cb.iter()).map(|v| v.f().abs()).filter(|v| v.is_finite()).fold(0.0f64, f64::max);
                            let mut bad = None;
                            for i in 0..d {
                                for j in 0..d {
                                    let (x, y) = (ca[j * d + i].f(), cb[j * d + i].f());
                                    if x.is_finite() && y.is_finite() && (x - y).abs() > rel_h * cmax + 8.0 * T::tiny() {
                                        bad = Some((i, j, x, y));
                                    }
                                }
                            }
                            if let Some((i, j, x, y)) = bad {
                                rep.violate(sc, "WEIGHT_STATS_MISMATCH", "covariance", format!("covariance matrices of the twins differ at ({i},{j}): {x:e} vs {y:e} (kappa(H) = {kh:e})"));
                            }
                            if continue_stats {
                                rep.probe("covariance_compared");
                            }
                        } else {
                            rep.probe("gated_out_covariance");
                        }
                    } else if fa.stats.is_some() != fb.stats.is_some() && same_opt {
                        // a singular normal matrix may be detected in one twin only when it is
                        // singular to working precision
                        if rel_h < 1e-2 {
                            rep.violate(sc, "WEIGHT_STATS_MISMATCH", "presence", "statistics exist for one twin only".into());
                        } else {
                            rep.probe("gated_out_covariance");
                        }
                    }
                }
                (Err(p), _) | (_, Err(p)) => rep.violate(sc, "PANIC", &format!("FitWithStatistics@{}", panic_site(&p)), p),
            }
        }
    }
    Exec::uninstall();
    rep.events = ctl_a.seq() + ctl_b.seq();
    rep.probe_n("optimizer_steps_in_lock_step", steps_locked);
    if c.bitwise {
        rep.probe("runs_bitwise_equal_throughout");
    }
    let w = ra.world.w.as_ref();
    let spread = w
        .map(|w| {
            let mx = w.iter().map(|v| v.f().abs()).fold(0.0f64, f64::max);
            let mn = w.iter().map(|v| v.f().abs()).filter(|v| *v > 0.0).fold(f64::INFINITY, f64::min);
            (mx / mn).log10().round() as i64
        })
        .unwrap_or(0);
    rep.signatures = vec![format!(
        "{}|{:?}|{:?}|{}|S{}|M{}|P{}|spread{}|neg{}|zero{}|steps{}",
        sc.variant,
        F::KIND,
        sc.width,
        if sc.parallel { "par" } else { "seq" },
        s,
        ra.world.m(),
        ra.world.p(),
        spread,
        w.map(|w| w.iter().any(|v| v.f() < 0.0)).unwrap_or(false) as u8,
        w.map(|w| w.iter().any(|v| v.f() == 0.0)).unwrap_or(false) as u8,
        steps_locked.min(12)
    )];
    rep.sample = Some(serde_json::json!({
        "variant": sc.variant,
        "model": format!("{:?}", sc.model.funcs.iter().map(|f| (f.family, f.params.clone())).collect::<Vec<_>>()),
        "kind": format!("{:?}", sc.model.kind), "width": format!("{:?}", sc.width),
        "N": n, "S": s, "weights": sc.weights.as_ref().map(|w| w.iter().take(8).map(|v| v.0).collect::<Vec<_>>()),
        "ops": sc.ops.iter().map(op_name).collect::<Vec<_>>(),
        "optimizer_steps_in_lock_step": steps_locked,
        "bitwise_equal_throughout": c.bitwise,
    }));
    rep
}

struct AnyProbParams(Vec<u64>);
