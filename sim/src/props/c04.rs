//! C04 — fit() reports success truthfully and returns a coherent, no-worse final state.

use super::common::*;
use crate::ctl::Ctl;
use crate::executor::Exec;
use crate::gen::*;
use crate::prng::{mix, Rng};
use crate::prob::TapKind;
use crate::refmath::{self, M64};
use crate::report::{panic_site, RunReport};
use crate::run::*;
use crate::sc::Sc;
use crate::spec::*;
use std::sync::Arc;

pub fn generate(seed: u64, index: u64, thorough: bool) -> Scenario {
    let mut rng = Rng::new(mix(seed, "C04", index));
    let kind = if rng.chance(0.3) {
        ModelKind::Builder
    } else {
        ModelKind::Hand
    };
    let sizes = pick_sizes(&mut rng, thorough, if thorough { 0.35 } else { 0.2 });
    let parallel = rng.chance(0.25);
    let start = *rng.pick(&[Start::Exact, Start::Near, Start::Mid, Start::Mid, Start::Far, Start::Far]);
    let noise = *rng.pick(&[0.0, 0.0, 1e-3, 5e-2, 0.3]);
    let (mut sc, d) = base_scenario(&mut rng, "C04", seed, index, kind, sizes, parallel, start, noise);
    if rng.chance(0.25) {
        sc.opt.patience = rng.usize_in(1, 5);
    }
    let mut ops = vec![];
    if rng.chance(0.3) {
        let ext = rng.chance(0.2);
        let a = gen_alpha_update(&mut rng, &d.alpha0, &[], sc.width, ext);
        ops.push(Op::SetParams(fxs(&a)));
    }
    ops.push(if sc.mrhs || rng.chance(0.5) {
        Op::Fit
    } else {
        Op::FitWithStatistics
    });
    sc.ops = ops;
    // a failing model in some runs: the Err mapping (TerminationReason::User)
    if rng.chance(0.15) {
        let (trigger, action) = match kind {
            ModelKind::Hand => (
                Trigger::Kind(
                    *rng.pick(&[CallKind::SetParams, CallKind::Eval, CallKind::Deriv(0)]),
                    rng.below(10) as u32,
                ),
                FaultAction::Fail,
            ),
            ModelKind::Builder => (
                Trigger::Kind(CallKind::Func(0), rng.below(10) as u32),
                fail_action(kind, &mut rng, sc.n()),
            ),
        };
        sc.faults.push(FaultRule {
            trigger,
            action,
            persist: if rng.chance(0.5) { Persist::Once } else { Persist::Forever },
        });
    }
    sc
}

pub fn execute(sc: &Scenario) -> RunReport {
    crate::props::dispatch!(sc, exec_t)
}

fn to_t<T: Sc>(bits: &[u64]) -> Vec<T> {
    bits.iter().map(|b| T::of_bits(*b)).collect()
}

fn exec_t<T: Sc, F: Factory<T>>(sc: &Scenario) -> RunReport {
    let mut rep = RunReport::default();
    rep.executions = 1;
    crate::ctl::set_current(sc);
    // production pass
    let exec = Exec::new(&sc.sched);
    exec.install();
    let ctl = Arc::new(Ctl::new(sc.faults.clone()));
    let mut r = Runner::<T, F>::start(sc, ctl.clone());
    r.run_ops(&sc.ops);
    let log = ctl.log();
    rep.events = ctl.seq();
    // tap twin
    let exec2 = Exec::new(&sc.sched);
    exec2.install();
    let ctl2 = Arc::new(Ctl::new(sc.faults.clone()));
    let mut r2 = Runner::<T, F>::start(sc, ctl2.clone());
    r2.tap = true;
    r2.run_ops(&sc.ops);
    let log2 = ctl2.log();
    exec.install();

    if let Some(p) = &r.build_panic {
        rep.violate(sc, "PANIC", &format!("build@{}", panic_site(p)), p.clone());
    }
    expect_built(sc, &mut rep, &r.build, r.build_panic.is_some(), "");
    let w = &r.world;
    let (n, s, m, p) = (w.n(), w.s(), w.m(), w.p());
    let mut prev: Option<Snap> = r.build_snap.clone();
    for st in &r.steps {
        let op = &sc.ops[st.op];
        if let Some(pm) = &st.panic {
            rep.violate(sc, "PANIC", &format!("{}@{}", op_name(op), panic_site(pm)), pm.clone());
            break;
        }
        let Some(sn) = &st.snap else { break };
        if let Extra::Fit(f) = &st.extra {
            let evs = &log[st.ev_from.min(log.len())..st.ev_to.min(log.len())];
            let faulted = evs.iter().any(|e| e.fault.is_some());
            rep.eat_str(&f.termination);
            rep.eat(f.evaluations as u64);
            rep.eat(f.objective.bits());
            rep.eat_bits(&sn.params);
            let reason = f.termination.split('(').next().unwrap_or("").to_string();
            rep.probe(&format!("termination_{}", f.termination.replace(['(', ')', ' ', ',', '='], "_")));

            // Ok <=> successful termination (fit_with_statistics may add Err for the statistics)
            if f.ok && !f.termination_successful {
                rep.violate(sc, "OK_ERR_MISMAP", "Fit", format!("fit returned Ok although the optimizer terminated with {}", f.termination));
            }
            if !f.ok && f.termination_successful && !f.with_stats {
                rep.violate(sc, "OK_ERR_MISMAP", "Fit", format!("fit returned Err although the optimizer terminated successfully with {}", f.termination));
            }
            // both variants hand back the final problem: its parameters are those the
            // optimizer applied last (tap twin), provided the twin is a faithful twin
            let mut accepted_steps = 0usize;
            let mut restore = false;
            let mut twin_ok = false;
            if let Some(st2) = r2.steps.iter().find(|x| x.op == st.op) {
                if let Extra::Tapped(t) = &st2.extra {
                    let k = t.ev_to - t.ev_from;
                    let a = &log[st.ev_from.min(log.len())..(st.ev_from + k).min(log.len())];
                    let b = &log2[t.ev_from.min(log2.len())..t.ev_to.min(log2.len())];
                    twin_ok = a == b && t.termination == f.termination && t.evaluations == f.evaluations;
                    if twin_ok {
                        let last_set = t.events.iter().rev().find_map(|e| match &e.kind {
                            TapKind::SetParams(b) => Some(b.clone()),
                            _ => None,
                        });
                        let expect = last_set.or_else(|| prev.as_ref().map(|s| s.params.clone()));
                        if !faulted {
                            if let Some(e) = expect {
                                if e != sn.params {
                                    rep.violate(sc, "INCOHERENT_FINAL_STATE", "Fit/params", "the returned problem does not report the parameters the optimizer applied last".into());
                                }
                            }
                        }
                        accepted_steps = t
                            .events
                            .iter()
                            .filter(|e| matches!(e.kind, TapKind::Jacobian(_)))
                            .count()
                            .saturating_sub(1);
                        // a restore is a SetParams that is not followed by a residual query
                        if let Some(pos) = t.events.iter().rposition(|e| matches!(e.kind, TapKind::SetParams(_))) {
                            restore = !t.events[pos + 1..]
                                .iter()
                                .any(|e| matches!(e.kind, TapKind::Residuals(_)));
                        }
                        if t.objective.bits() != f.objective.bits() {
                            rep.violate(sc, "OBJECTIVE_MISMATCH", "Fit/twin", "fit and the tapped optimizer run disagree on the objective".into());
                        }
                        let tap_sets = t.events.iter().filter(|e| matches!(e.kind, TapKind::SetParams(_))).count();
                        if tap_sets > f.evaluations {
                            rep.violate(sc, "BUDGET_EXCEEDED", "Fit/set_params", format!("{tap_sets} parameter applications for {} evaluations", f.evaluations));
                        }
                    } else {
                        rep.probe("fit_tap_divergence");
                    }
                }
            }
            if restore {
                rep.probe("ended_on_rejected_step_restore_executed");
            }
            if accepted_steps >= 3 {
                rep.probe("fits_with_3_or_more_accepted_steps");
            }
            // evaluation budget
            let budget = sc.opt.patience.max(1) * (p + 1);
            if f.evaluations > budget {
                rep.violate(sc, "BUDGET_EXCEEDED", "Fit/evaluations", format!("{} evaluations, budget patience*(P+1) = {budget}", f.evaluations));
            }
            if F::KIND == ModelKind::Hand && twin_ok {
                let k = evs.iter().filter(|e| e.kind == CallKind::SetParams).count();
                if k > f.evaluations {
                    rep.violate(sc, "BUDGET_EXCEEDED", "Fit/model_set_params", format!("{k} model.set_params calls for {} evaluations", f.evaluations));
                }
            }
            if f.nl_params != sn.params {
                rep.violate(sc, "INCOHERENT_FINAL_STATE", "Fit/nonlinear_parameters", "nonlinear_parameters() differs from the returned problem's parameters".into());
            }
            // successful result with a model that evaluates without error
            if f.termination_successful && !faulted {
                rep.probe("successful_fits_checked");
                match (&sn.resid, &sn.coeff) {
                    (Some(rb), Some(cb)) => {
                        let params: Vec<T> = to_t(&sn.params);
                        let resid: Vec<T> = to_t(rb);
                        let coeff: Vec<T> = to_t(cb);
                        // (B) same as a fresh problem at alpha_hat (missed restore would show here)
                        match guarded(|| fresh::<T, F>(w, &params, false, false)) {
                            Ok(Ok(fr)) => {
                                // the reference is sequential; the state was computed by the flavour the fit ran on
                                let verdict = agree_with_reference::<T>(w, &fr.snap, sn, !f.was_parallel);
                                if verdict == Agree::Rounding {
                                    rep.probe("final_state_equal_up_to_rounding_across_flavours");
                                }
                                if verdict == Agree::No {
                                    rep.violate(sc, "INCOHERENT_FINAL_STATE", "Fit/state", "coefficients/residuals of the returned problem are not those of a fresh problem at the returned parameters".into());
                                }
                            }
                            Ok(Err(_)) => {}
                            Err(pm) => rep.violate(sc, "PANIC", &format!("fresh@{}", panic_site(&pm)), pm),
                        }
                        // (T) residual identity
                        match super::c02::residual_identity(w, &params, &resid, &coeff, sn.coeff_shape) {
                            Ok(_) => {}
                            Err(e) => rep.violate(sc, "INCOHERENT_FINAL_STATE", "Fit/residuals", e),
                        }
                        // (T) objective = 1/2 ||r||^2
                        let nr2: f64 = resid.iter().map(|v| v.f() * v.f()).sum();
                        let half = 0.5 * nr2;
                        let obj = f.objective.f();
                        let tol = 64.0 * (n * s) as f64 * T::u();
                        if obj.is_finite() && half.is_finite() {
                            // squaring may under/overflow in T near the extremes: compare only in the safe range
                            let safe = nr2.sqrt() > 1e-15 && nr2.sqrt() < 1e15;
                            if safe && (obj - half).abs() > tol * half.max(f64::MIN_POSITIVE) {
                                rep.violate(sc, "OBJECTIVE_MISMATCH", "Fit/objective", format!("reported objective {obj:e}, but 1/2*||residuals||^2 of the returned problem is {half:e}"));
                            }
                            // no worse than the start
                            if let Some(pr) = &prev {
                                if let Some(r0) = &pr.resid {
                                    let r0: Vec<T> = to_t(r0);
                                    let o0: f64 = 0.5 * r0.iter().map(|v| v.f() * v.f()).sum::<f64>();
                                    if o0.is_finite() && safe && obj > o0 * (1.0 + tol) + f64::MIN_POSITIVE {
                                        rep.violate(sc, "OBJECTIVE_INCREASED", "Fit/objective", format!("objective after the fit {obj:e} exceeds the objective at the initial guess {o0:e}"));
                                    }
                                }
                            }
                        }
                        // (T) best_fit belongs to the same state: Phi(alpha_hat)·C_hat, unweighted,
                        // in the shape of the observations
                        if let (Some(bf), Some(cm)) = (&f.best_fit, &f.coeffs) {
                            if bf.shape() != (n, s) {
                                rep.violate(sc, "INCOHERENT_FINAL_STATE", "Fit/best_fit", format!("best_fit has shape {:?}, expected ({n},{s})", bf.shape()));
                            } else {
                                match super::c02::best_fit_identity(w, &params, bf, cm) {
                                    Ok(_) => {}
                                    Err(e) => rep.violate(sc, "INCOHERENT_FINAL_STATE", "Fit/best_fit", e),
                                }
                            }
                        }
                        // (T) coefficients optimal for alpha_hat, judged on the objective
                        match optimality(w, &params, &coeff, nr2.sqrt()) {
                            Opt::Ok => rep.probe("optimality_checked"),
                            Opt::Gated(why) => rep.probe(&format!("gated_out_{why}")),
                            Opt::Bad(e) => rep.violate(sc, "INCOHERENT_FINAL_STATE", "Fit/optimality", e),
                            Opt::SvdBad(e) => rep.violate(sc, "SVD_INACCURATE", "nalgebra-svd", e),
                        }
                    }
                    _ => {
                        rep.violate(sc, "INCOHERENT_FINAL_STATE", "Fit/absent", "a successful fit of a model that evaluates returned a problem without residuals/coefficients".into());
                    }
                }
            }
            let _ = m;
            rep.signatures = vec![format!(
                "{:?}|M{}P{}N{}|{}|{}|{}|acc{}|restore{}|{:?}|ok{}",
                F::KIND,
                m,
                p,
                (n / 8).min(6),
                if sc.parallel { "par" } else { "seq" },
                if sc.mrhs { "mrhs" } else { "single" },
                reason,
                accepted_steps.min(6),
                restore as u8,
                sc.width,
                f.ok as u8
            )];
            rep.sample = Some(serde_json::json!({
                "model": format!("{:?}", sc.model.funcs.iter().map(|f| (f.family, f.params.clone())).collect::<Vec<_>>()),
                "kind": format!("{:?}", sc.model.kind), "width": format!("{:?}", sc.width),
                "N": n, "S": s, "parallel": sc.parallel, "opt": format!("{:?}", sc.opt),
                "termination": f.termination, "ok": f.ok, "evaluations": f.evaluations,
                "accepted_steps": accepted_steps, "ended_on_restore": restore,
                "faults": sc.faults.iter().map(|f| format!("{:?}", f)).collect::<Vec<_>>(),
            }));
        }
        prev = Some(sn.clone());
    }
    Exec::uninstall();
    for e in &log {
        if e.fault.is_some() {
            rep.probe(&format!("fault_{}", e.kind.class()));
        }
    }
    rep
}

enum Opt {
    Ok,
    SvdBad(String),
    Gated(&'static str),
    Bad(String),
}

/// Ĉ minimises ||Yw − Φw C|| — judged on the objective against an independent f64
/// least-squares solution, gated on conditioning and on the truncation threshold.
fn optimality<T: Sc>(w: &World<T>, params: &[T], coeff: &[T], rnorm: f64) -> Opt {
    let (n, s, m) = (w.n(), w.s(), w.m());
    let phi = refmath::phi::<T>(&w.spec, &w.x, params);
    let mut phiw = phi;
    if let Some(wt) = &w.w {
        for j in 0..m {
            for i in 0..n {
                phiw[(i, j)] = wt[i] * phiw[(i, j)];
            }
        }
    }
    let a = M64::from_t(&phiw);
    let y = M64::from_t(&w.weighted_y());
    if !a.all_finite() || !y.all_finite() {
        return Opt::Gated("nonfinite");
    }
    let _ = s;
    if n < m {
        return Opt::Gated("wide");
    }
    let Some(sv) = refmath::singular_values(&a) else {
        return Opt::Gated("nonfinite");
    };
    let smax = sv[0];
    let smin = *sv.last().unwrap();
    let eps = w.eps.map(|e| e.f().abs()).unwrap_or(2.0 * T::u());
    let kmax = if T::NAME == "f64" { 1e7 } else { 1e3 };
    if smin <= eps {
        return Opt::Gated("truncated_singular_value_at_final_state");
    }
    if smin <= 4.0 * eps || smin <= 0.0 {
        return Opt::Gated("near_truncation_threshold");
    }
    if smax / smin > kmax {
        return Opt::Gated("ill_conditioned");
    }
    if smin < refmath::underflow_range::<T>() {
        return Opt::Gated("underflow_range");
    }
    let Some(cref) = refmath::lstsq(&a, &y, 1e-12) else {
        return Opt::Gated("rank");
    };
    let c = M64 {
        r: m,
        c: s,
        d: coeff.iter().map(|v| v.f()).collect(),
    };
    let res = |c: &M64| -> f64 {
        let pc = a.mul(c);
        let mut t = 0.0;
        for k in 0..pc.d.len() {
            let d = y.d[k] - pc.d[k];
            t += d * d;
        }
        t.sqrt()
    };
    let r_hat = res(&c);
    let r_ref = res(&cref);
    let scale = y.fro() + a.abs_mul(&c).fro();
    // delivered accuracy of the SVD-based solve (see c06::floor): about 1e-10 in f64 even
    // for condition numbers near 1; anything above that is either a logic error of the
    // library or a decomposition that does not reconstruct its input (diagnosed below)
    let floor = if T::NAME == "f64" { 1e-8 } else { 2e-3 };
    let slack = (64.0 * (m + n) as f64 * T::u() + floor) * (smax / smin) * scale + f64::MIN_POSITIVE;
    if r_hat > r_ref + slack {
        // diagnosis: is it the decomposition (known third-party defect) or the library's logic?
        if let Some(e) = refmath::svd_reconstruction_error(&phiw) {
            if e > refmath::svd_bad_threshold::<T>() {
                return Opt::SvdBad(format!("nalgebra's SVD of the weighted basis matrix at the returned parameters does not reconstruct its input (relative error {e:e}); the returned coefficients reach ||W(Y - Phi C)|| = {r_hat:e}, an independent least-squares solution {r_ref:e}"));
            }
        }
        return Opt::Bad(format!(
            "the returned coefficients are not optimal for the returned parameters: ||W(Y - Phi C_hat)|| = {r_hat:e}, but an independent least-squares solution reaches {r_ref:e} (slack {slack:e}, reported residual norm {rnorm:e})"
        ));
    }
    Opt::Ok
}
