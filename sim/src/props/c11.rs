//! C11 — parallel problems compute exactly what sequential problems compute, independent
//! of pool size and schedule.
//!
//! One scenario is executed as: the parallel problem under its seeded schedule (tap mode and
//! production mode), the sequential twin, and the parallel problem again under two further
//! schedule tapes / pool sizes. In overlap mode the parallel executions run under shuttle
//! with truly overlapped arms.

use super::common::*;
use crate::ctl::{Ctl, Event};
use crate::executor::{Exec, ExecStats};
use crate::gen::*;
use crate::prng::{mix, Rng};
use crate::prob::TapKind;
use crate::report::{panic_site, RunReport};
use crate::run::*;
use crate::sc::Sc;
use crate::spec::*;
use std::sync::{Arc, Mutex};

pub fn generate(seed: u64, index: u64, thorough: bool) -> Scenario {
    let mut rng = Rng::new(mix(seed, "C11", index));
    let kind = if rng.chance(0.3) {
        ModelKind::Builder
    } else {
        ModelKind::Hand
    };
    let sizes = pick_sizes(&mut rng, thorough, if thorough { 0.5 } else { 0.4 });
    let start = *rng.pick(&[Start::Near, Start::Mid, Start::Far]);
    let noise = *rng.pick(&[0.0, 1e-3, 5e-2, 0.3]);
    let (mut sc, d) = base_scenario(&mut rng, "C11", seed, index, kind, sizes, true, start, noise);
    sc.opt.patience = sc.opt.patience.min(if thorough { 30 } else { 15 });
    let long = rng.chance(0.2);
    sc.ops = gen_script(
        &mut rng,
        &sc,
        &d,
        ScriptCfg {
            min_ops: 2,
            max_ops: if long { 16 } else { 7 },
            allow_extreme: true,
            p_fit: 0.10,
            allow_clone: false,
            allow_into_seq: true,
            allow_band: false,
        },
    );
    if !sc.ops.iter().any(|o| matches!(o, Op::Jacobian)) {
        sc.ops.push(Op::Jacobian);
    }
    if !sc.ops.iter().any(|o| matches!(o, Op::Fit | Op::FitWithStatistics)) && rng.chance(0.6) {
        sc.ops.push(if sc.mrhs || rng.chance(0.5) { Op::Fit } else { Op::FitWithStatistics });
        if rng.chance(0.5) {
            sc.ops.push(Op::Jacobian);
        }
    }
    // derivative failures under schedules
    if rng.chance(0.2) {
        let (trigger, action) = match kind {
            ModelKind::Hand => (
                Trigger::Kind(CallKind::Deriv(rng.usize_in(0, sc.model.nparams - 1)), rng.below(4) as u32),
                FaultAction::Fail,
            ),
            ModelKind::Builder => {
                let cands: Vec<(usize, usize)> = sc
                    .model
                    .funcs
                    .iter()
                    .enumerate()
                    .flat_map(|(j, f)| f.params.iter().map(move |k| (j, *k)))
                    .collect();
                let (j, k) = *rng.pick(&cands);
                (
                    Trigger::Kind(CallKind::FuncDeriv(j, k), rng.below(4) as u32),
                    fail_action(kind, &mut rng, sc.n()),
                )
            }
        };
        sc.faults.push(FaultRule {
            trigger,
            action,
            persist: if rng.chance(0.7) { Persist::Once } else { Persist::Forever },
        });
    }
    let allow_overlap = rng.chance(if thorough { 0.2 } else { 0.1 });
    sc.sched = gen_sched(&mut rng, true, allow_overlap);
    if allow_overlap {
        sc.sched.overlap = true;
        sc.sched.pool = sc.sched.pool.max(2);
        sc.sched.mix = [Fx(0.1), Fx(0.1), Fx(0.1), Fx(0.7)];
    }
    add_zero_sign_pairs(&mut sc, &mut Rng::new(mix(seed, "C11-zero-sign", index)));
    // concurrent callers on the shared parallel problem (own PRNG stream: every other
    // scenario stays as it was)
    let mut r2 = Rng::new(mix(seed, "C11-concurrent", index));
    if r2.chance(if thorough { 0.08 } else { 0.06 }) {
        make_concurrent(&mut sc, &mut r2);
    }
    sc
}

pub fn execute(sc: &Scenario) -> RunReport {
    crate::props::dispatch!(sc, exec_t)
}

struct VariantOut<T: Sc> {
    steps: Vec<StepObs<T>>,
    log: Vec<Event>,
    build_snap: Option<Snap>,
    build_panic: Option<String>,
    build: Result<(), String>,
    stats: ExecStats,
}

fn run_variant_plain<T: Sc, F: Factory<T>>(sc: &Scenario, parallel: bool, sched: &SchedSpec, tap: bool) -> VariantOut<T> {
    let mut s2 = sc.clone();
    s2.parallel = parallel;
    s2.sched = sched.clone();
    let exec = Exec::new(sched);
    exec.install();
    let ctl = Arc::new(Ctl::new(sc.faults.clone()));
    ctl.set_overlap(sched.overlap && parallel);
    let mut r = Runner::<T, F>::start(&s2, ctl.clone());
    r.tap = tap;
    r.skip_conversions = !parallel;
    r.run_ops(&sc.ops);
    ctl.set_overlap(false);
    Exec::uninstall();
    VariantOut {
        steps: std::mem::take(&mut r.steps),
        log: ctl.log(),
        build_snap: r.build_snap.clone(),
        build_panic: r.build_panic.clone(),
        build: r.build.clone(),
        stats: exec.stats(),
    }
}

/// run a variant; in overlap mode inside the shuttle runtime (one seeded schedule)
fn run_variant<T: Sc, F: Factory<T>>(sc: &Scenario, parallel: bool, sched: &SchedSpec, tap: bool) -> Result<VariantOut<T>, String> {
    if !(parallel && sched.overlap) {
        return Ok(run_variant_plain::<T, F>(sc, parallel, sched, tap));
    }
    let out: Arc<Mutex<Option<VariantOut<T>>>> = Arc::new(Mutex::new(None));
    let out2 = out.clone();
    let scc = sc.clone();
    let sch = sched.clone();
    let mut cfg = shuttle::Config::new();
    cfg.stack_size = 1 << 21;
    cfg.failure_persistence = shuttle::FailurePersistence::None;
    cfg.max_steps = shuttle::MaxSteps::FailAfter(5_000_000);
    cfg.silence_warnings = true;
    let seed = sched.shuttle_seed;
    let res = guarded(move || {
        if seed % 4 == 0 {
            let sch_pct = shuttle::scheduler::PctScheduler::new_from_seed(seed, 3, 1);
            shuttle::Runner::new(sch_pct, cfg).run(move || {
                let _scope = crate::ctl::ShuttleScope::enter();
                let v = run_variant_plain::<T, F>(&scc, parallel, &sch, tap);
                *out2.lock().unwrap() = Some(v);
            });
        } else {
            let sch_rand = shuttle::scheduler::RandomScheduler::new_from_seed(seed, 1);
            shuttle::Runner::new(sch_rand, cfg).run(move || {
                let _scope = crate::ctl::ShuttleScope::enter();
                let v = run_variant_plain::<T, F>(&scc, parallel, &sch, tap);
                *out2.lock().unwrap() = Some(v);
            });
        }
    });
    Exec::uninstall();
    match res {
        Err(p) => Err(p),
        Ok(()) => out.lock().unwrap().take().ok_or_else(|| "shuttle run produced no result".into()),
    }
}

fn to_t<T: Sc>(bits: &[u64]) -> Vec<T> {
    bits.iter().map(|b| T::of_bits(*b)).collect()
}

/// Jacobians of the two flavours: bitwise equal, or equal within a rounding-level bound.
/// A Jacobian column is U(U^T v) - v with v = W.D_k.C: after cancellation its own size says
/// nothing about its rounding error, which lives on the scale of v. `term_scale` is that
/// scale (max_k ||W.D_k||_inf-rowsum x max|C|, from the reference mathematics).
fn jac_close<T: Sc>(a: &[u64], b: &[u64], rows: usize, term_scale: f64) -> (bool, bool) {
    if a == b {
        return (true, true);
    }
    if a.len() != b.len() || rows == 0 {
        return (false, false);
    }
    let av: Vec<T> = to_t(a);
    let bv: Vec<T> = to_t(b);
    let cols = a.len() / rows;
    for c in 0..cols {
        let mut scale = term_scale;
        for i in 0..rows {
            let (x, y) = (av[c * rows + i].f().abs(), bv[c * rows + i].f().abs());
            if x.is_finite() && y.is_finite() {
                scale = scale.max(x).max(y);
            }
        }
        for i in 0..rows {
            let (x, y) = (av[c * rows + i].f(), bv[c * rows + i].f());
            if x == y || !x.is_finite() || !y.is_finite() {
                continue;
            }
            if !scale.is_finite() {
                continue;
            }
            if !((x - y).abs() <= 64.0 * (rows as f64 + 8.0) * T::u() * scale + 4.0 * T::tiny()) {
                return (false, false);
            }
        }
    }
    (false, true)
}

/// magnitude of the terms a Jacobian at `params` with coefficients `coeff` is formed from
fn jac_term_scale<T: Sc>(w: &World<T>, params: &[u64], coeff: &Option<Vec<u64>>) -> f64 {
    let p: Vec<T> = to_t(params);
    let cmax = match coeff {
        Some(c) => to_t::<T>(c).iter().map(|v| v.f().abs()).filter(|v| v.is_finite()).fold(0.0f64, f64::max),
        None => {
            // coefficients not observable (inside a fit): independent f64 least squares at
            // these parameters; no usable reference => no meaningful bound => gate
            let a = crate::refmath::M64::from_t(&crate::refmath::phi_w::<T>(&w.spec, &w.x, w.w.as_ref(), &p));
            let y = crate::refmath::M64::from_t(&w.weighted_y());
            match crate::refmath::lstsq(&a, &y, 1e-13) {
                Some(c) => c.d.iter().map(|v| v.abs()).filter(|v| v.is_finite()).fold(0.0f64, f64::max),
                None => return f64::INFINITY,
            }
        }
    };
    let wabs = |i: usize| w.w.as_ref().map(|x| x[i].f().abs()).unwrap_or(1.0);
    let mut ds = 0.0f64;
    for k in 0..w.p() {
        let d = crate::refmath::dphi::<T>(&w.spec, k, &w.x, &p);
        for i in 0..d.nrows() {
            let mut row = 0.0;
            for j in 0..d.ncols() {
                row += (d[(i, j)].f() * wabs(i)).abs();
            }
            if row.is_finite() {
                ds = ds.max(row);
            }
        }
    }
    // coefficients small by cancellation still carry rounding noise of size ||Yw||/||W.Phi||
    let yw = w.weighted_y().iter().map(|v| v.f().abs()).filter(|v| v.is_finite()).fold(0.0f64, f64::max);
    let phi = crate::refmath::phi_w::<T>(&w.spec, &w.x, w.w.as_ref(), &p);
    let pn = phi.iter().map(|v| v.f().abs()).filter(|v| v.is_finite()).fold(0.0f64, f64::max);
    let c_noise = if pn > 0.0 { yw / pn } else { 0.0 };
    ds * cmax.max(c_noise)
}

/// compare two executions step by step. `strict`: everything bitwise (same code, other
/// schedule). Otherwise: state bitwise, Jacobian toleranced, fits bitwise as long as the
/// Jacobians were bitwise equal along the way.
#[allow(clippy::too_many_arguments)]
fn compare<T: Sc>(
    sc: &Scenario,
    rep: &mut RunReport,
    a: &VariantOut<T>,
    b: &VariantOut<T>,
    strict: bool,
    class: &str,
    what: &str,
    nrows: usize,
    world: &World<T>,
) {
    let mut jac_bitwise_so_far = true;
    if a.build_snap != b.build_snap {
        // between flavours a build-time state that agrees up to rounding is accepted (and the
        // comparison continues in the toleranced regime); between schedules it must be bitwise
        let verdict = match (&a.build_snap, &b.build_snap, strict) {
            (Some(x), Some(y), false) => state_close::<T>(world, x, y),
            _ => Some(false),
        };
        if verdict != Some(true) {
            rep.violate(sc, class, &format!("{what}/build"), "state after build() differs".into());
        } else {
            rep.probe("state_equal_up_to_rounding_between_flavours");
            jac_bitwise_so_far = false;
        }
    }
    for (sa, sb) in a.steps.iter().zip(b.steps.iter()) {
        let op = &sc.ops[sa.op];
        let name = op_name(op);
        if sa.panic.is_some() || sb.panic.is_some() {
            if sa.panic.is_some() != sb.panic.is_some() {
                rep.violate(sc, class, &format!("{what}/{name}/panic"), format!("op {}: one execution panicked ({:?} vs {:?})", sa.op, sa.panic, sb.panic));
            }
            break;
        }
        match (&sa.extra, &sb.extra) {
            (Extra::Jac(ja), Extra::Jac(jb)) => {
                if ja.bits.is_some() != jb.bits.is_some() || ja.shape != jb.shape {
                    rep.violate(sc, class, &format!("{what}/{name}/presence"), format!("op {}: Jacobian present in one execution only (or shapes differ: {:?} vs {:?})", sa.op, ja.shape, jb.shape));
                } else if let (Some(x), Some(y)) = (&ja.bits, &jb.bits) {
                    let ts = match &sa.snap {
                        Some(s) if !strict && x != y => jac_term_scale(world, &s.params, &s.coeff),
                        _ => 0.0,
                    };
                    let (bit, close) = jac_close::<T>(x, y, ja.shape.0, ts);
                    if bit {
                        rep.probe("jacobian_bitwise_equal");
                    } else {
                        jac_bitwise_so_far = false;
                        rep.probe("jacobian_not_bitwise");
                        if strict || !close {
                            rep.violate(sc, class, &format!("{what}/{name}"), format!("op {}: Jacobians differ{}", sa.op, if strict { " between two schedules of the same parallel problem" } else { " beyond rounding" }));
                        }
                    }
                }
            }
            (Extra::Concurrent { reference: ra, .. }, Extra::Concurrent { reference: rb, .. }) => {
                let (ja, jb) = (&ra.1, &rb.1);
                if ja.bits.is_some() != jb.bits.is_some() || ja.shape != jb.shape {
                    rep.violate(sc, class, &format!("{what}/{name}/presence"), format!("op {}: Jacobian present in one execution only", sa.op));
                } else if let (Some(x), Some(y)) = (&ja.bits, &jb.bits) {
                    let ts = if !strict && x != y { jac_term_scale(world, &ra.0.params, &ra.0.coeff) } else { 0.0 };
                    let (bit, close) = jac_close::<T>(x, y, ja.shape.0, ts);
                    if !bit {
                        jac_bitwise_so_far = false;
                        rep.probe("jacobian_not_bitwise");
                        if strict || !close {
                            rep.violate(sc, class, &format!("{what}/{name}"), format!("op {}: Jacobians differ", sa.op));
                        }
                    }
                }
            }
            (Extra::Tapped(ta), Extra::Tapped(tb)) => {
                // walk the optimizer's view of both problems
                let mut diverged = false;
                let mut cur_params: Option<Vec<u64>> = sa.snap.as_ref().map(|s| s.params.clone());
                let _ = &cur_params;
                // parameters in effect while walking: start from the state before the fit
                let mut walk_params: Option<Vec<u64>> = None;
                for (ea, eb) in ta.events.iter().zip(tb.events.iter()) {
                    if let TapKind::SetParams(b) = &ea.kind {
                        walk_params = Some(b.clone());
                    }
                    if let TapKind::Params(b) = &ea.kind {
                        if walk_params.is_none() {
                            walk_params = Some(b.clone());
                        }
                    }
                    match (&ea.kind, &eb.kind) {
                        (TapKind::Jacobian(x), TapKind::Jacobian(y)) => {
                            if x.is_some() != y.is_some() {
                                rep.violate(sc, class, &format!("{what}/{name}/jacobian-presence"), format!("op {}: inside the fit one flavour returned a Jacobian, the other None", sa.op));
                                diverged = true;
                                break;
                            }
                            if let (Some(x), Some(y)) = (x, y) {
                                // inside the fit the coefficients are not visible: take the
                                // noise scale (||Yw||/||W.Phi||) through an empty coefficient set
                                let ts = match &walk_params {
                                    Some(p) if !strict && x != y => jac_term_scale(world, p, &None),
                                    _ => 0.0,
                                };
                                let (bit, close) = jac_close::<T>(x, y, nrows, ts);
                                if !bit {
                                    jac_bitwise_so_far = false;
                                    rep.probe("jacobian_not_bitwise");
                                    if strict || !close {
                                        rep.violate(sc, class, &format!("{what}/{name}/jacobian"), format!("op {}: inside the fit the Jacobians differ", sa.op));
                                    }
                                    diverged = true;
                                    break;
                                }
                            }
                        }
                        (TapKind::Residuals(Some(x)), TapKind::Residuals(Some(y))) if !strict && x != y => {
                            // one flavour refactored at rounding level: accept residuals that agree
                            // up to rounding and stop the step-by-step comparison (the optimizers
                            // may take different paths from here)
                            // inside the fit the coefficients are not visible: a generous rounding
                            // bound on the residuals' own scale (a defect differs by far more)
                            let (vx, vy): (Vec<T>, Vec<T>) = (to_t(x), to_t(y));
                            let fin = |v: f64| if v.is_finite() { v.abs() } else { 0.0 };
                            let scale = vx.iter().chain(vy.iter()).map(|v| fin(v.f())).fold(0.0f64, f64::max).max(world.weighted_y().iter().map(|v| fin(v.f())).fold(0.0f64, f64::max));
                            // ... plus the magnitude of the terms Phi_w.C the residuals are formed from
                            // (coefficients from an independent least-squares solution at these
                            // parameters; huge cancelling coefficients of an ill-conditioned trial
                            // step carry their rounding error into the residuals)
                            let scale = match &walk_params {
                                Some(pb) => {
                                    let pv: Vec<T> = to_t(pb);
                                    let phiw = crate::refmath::phi_w::<T>(&world.spec, &world.x, world.w.as_ref(), &pv);
                                    let am = crate::refmath::M64::from_t(&phiw);
                                    let ym = crate::refmath::M64::from_t(&world.weighted_y());
                                    let pmax = phiw.iter().map(|v| fin(v.f())).fold(0.0f64, f64::max);
                                    match crate::refmath::lstsq(&am, &ym, 1e-13) {
                                        Some(c) => scale + pmax * world.m() as f64 * c.d.iter().map(|v| fin(*v)).fold(0.0f64, f64::max),
                                        None => f64::INFINITY,
                                    }
                                }
                                None => f64::INFINITY,
                            };
                            let tol = if T::NAME == "f64" { 1e-9 } else { 1e-4 };
                            let ok = vx.len() == vy.len()
                                && vx.iter().zip(vy.iter()).all(|(p, q)| {
                                    let (p, q) = (p.f(), q.f());
                                    p == q || !p.is_finite() || !q.is_finite() || !scale.is_finite() || (p - q).abs() <= tol * scale + 8.0 * T::tiny()
                                });
                            let verdict = Some(ok);
                            let _ = &walk_params;
                            if verdict != Some(true) {
                                rep.violate(sc, class, &format!("{what}/{name}/residuals"), format!("op {}: inside the fit the residuals of the two flavours differ beyond rounding", sa.op));
                            } else {
                                rep.probe("residuals_equal_up_to_rounding_between_flavours");
                            }
                            jac_bitwise_so_far = false;
                            diverged = true;
                            break;
                        }
                        (x, y) => {
                            if x != y {
                                if jac_bitwise_so_far {
                                    rep.violate(sc, class, &format!("{what}/{name}/trajectory"), format!("op {}: the optimizer saw different {} although all Jacobians so far were bitwise equal", sa.op, match x { TapKind::Residuals(_) => "residuals", TapKind::SetParams(_) => "parameters", _ => "values" }));
                                }
                                diverged = true;
                                break;
                            }
                        }
                    }
                }
                if !diverged && jac_bitwise_so_far {
                    if ta.events.len() != tb.events.len() || ta.termination != tb.termination || ta.evaluations != tb.evaluations || ta.objective.bits() != tb.objective.bits() {
                        rep.violate(sc, class, &format!("{what}/{name}/result"), format!("op {}: fits differ: {} after {} evaluations vs {} after {}", sa.op, ta.termination, ta.evaluations, tb.termination, tb.evaluations));
                    }
                    rep.probe("fits_compared_bitwise");
                } else if !jac_bitwise_so_far {
                    // toleranced regime: the two optimizers saw Jacobians that differ by
                    // rounding, their trajectories (and every occurrence-keyed fault) are no
                    // longer comparable step by step
                    if ta.termination_successful != tb.termination_successful {
                        rep.probe("fit_outcome_differs_after_jacobian_rounding");
                    }
                    rep.probe("comparison_stopped_after_rounding_divergence");
                    return;
                }
            }
            (Extra::Fit(fa), Extra::Fit(fb)) => {
                if !jac_bitwise_so_far {
                    rep.probe("comparison_stopped_after_rounding_divergence");
                    return;
                }
                if jac_bitwise_so_far && (fa.ok != fb.ok || fa.termination != fb.termination || fa.evaluations != fb.evaluations || fa.nl_params != fb.nl_params || fa.objective.bits() != fb.objective.bits()) {
                    rep.violate(sc, class, &format!("{what}/{name}/result"), format!("op {}: fit results differ: {} ({} evaluations) vs {} ({})", sa.op, fa.termination, fa.evaluations, fb.termination, fb.evaluations));
                }
                if jac_bitwise_so_far {
                    let sa_ = fa.stats.as_ref().map(|s| (s.reduced_chi2.bits(), crate::sc::mat_bits(&s.covariance)));
                    let sb_ = fb.stats.as_ref().map(|s| (s.reduced_chi2.bits(), crate::sc::mat_bits(&s.covariance)));
                    if sa_ != sb_ {
                        rep.violate(sc, class, &format!("{what}/{name}/statistics"), format!("op {}: fit statistics differ", sa.op));
                    }
                }
            }
            _ => {}
        }
        // residuals / coefficients / params: on the pinned tree the update path is the same
        // computation in both flavours (bitwise). A refactoring of ONE flavour may change its
        // last bits: between flavours (not between schedules) a state that differs is accepted
        // when it is equal within a conditioning-aware rounding bound, and from then on the
        // comparison continues in the toleranced regime
        if !strict && jac_bitwise_so_far && sa.snap != sb.snap && !matches!(op, Op::Fit | Op::FitWithStatistics) {
            if let (Some(x), Some(y)) = (&sa.snap, &sb.snap) {
                match state_close::<T>(world, x, y) {
                    Some(true) => {
                        rep.probe("state_equal_up_to_rounding_between_flavours");
                        jac_bitwise_so_far = false;
                    }
                    // undecidable: reported below, as under the bitwise rule
                    None | Some(false) => {}
                }
            }
        }
        if !strict && !jac_bitwise_so_far && sa.snap != sb.snap && !matches!(op, Op::Fit | Op::FitWithStatistics) {
            // toleranced regime: the states must still agree up to rounding
            if let (Some(x), Some(y)) = (&sa.snap, &sb.snap) {
                if state_close::<T>(world, x, y) != Some(true) {
                    rep.violate(sc, class, &format!("{what}/{name}/state"), format!("op {}: residuals/coefficients/parameters of the two flavours differ beyond rounding after {name}", sa.op));
                }
            } else if sa.snap.is_some() != sb.snap.is_some() {
                rep.violate(sc, class, &format!("{what}/{name}/presence"), format!("op {}: state present in one flavour only after {name}", sa.op));
            }
        }
        if jac_bitwise_so_far || !matches!(op, Op::Fit | Op::FitWithStatistics) {
            if sa.snap != sb.snap && jac_bitwise_so_far {
                let w = match (&sa.snap, &sb.snap) {
                    (Some(x), Some(y)) => {
                        if x.params != y.params {
                            "params"
                        } else if x.resid != y.resid {
                            "residuals"
                        } else {
                            "coefficients"
                        }
                    }
                    _ => "presence",
                };
                rep.violate(sc, class, &format!("{what}/{name}/{w}"), format!("op {}: {w} differ after {name}", sa.op));
            }
        }
    }
    if a.steps.len() != b.steps.len() {
        rep.violate(sc, class, &format!("{what}/steps"), "executions have different lengths".into());
    }
}

/// `ConcurrentQueries`: what each of the simultaneous callers saw must be bitwise what the
/// lone caller saw immediately before (same code, same state; only the interleaving of the
/// callers and of their stolen arms differs). Skipped when a fault fired during the operation
/// (which caller meets a transient failure is then the schedule's choice).
fn concurrent_rule<T: Sc>(sc: &Scenario, rep: &mut RunReport, v: &VariantOut<T>, what: &str) {
    for st in &v.steps {
        super::common::concurrent_rule(sc, rep, st, &v.log, "SCHEDULE_DEPENDENCE", &format!("{what}/ConcurrentQueries"));
    }
}

fn exec_t<T: Sc, F: Factory<T>>(sc: &Scenario) -> RunReport {
    let mut rep = RunReport::default();
    crate::ctl::set_current(sc);
    let nrows = sc.n() * sc.s();
    // A: parallel, seeded schedule, tap mode
    let a = match run_variant::<T, F>(sc, true, &sc.sched, true) {
        Ok(v) => v,
        Err(p) => {
            rep.executions += 1;
            rep.violate(sc, "DATA_RACE_OR_UB", &format!("parallel@{}", panic_site(&p)), format!("the parallel execution failed under the simulated schedule: {p}"));
            return rep;
        }
    };
    rep.executions += 1;
    rep.events += a.log.len() as u64;
    if let Some(p) = &a.build_panic {
        rep.violate(sc, "PANIC", &format!("build@{}", panic_site(p)), p.clone());
    }
    if sc.faults.is_empty() {
        expect_built(sc, &mut rep, &a.build, a.build_panic.is_some(), "");
    }
    for st in &a.steps {
        if let Some(p) = &st.panic {
            rep.violate(sc, "PANIC", &format!("{}@{}", op_name(&sc.ops[st.op]), panic_site(p)), p.clone());
        }
    }
    // B: sequential twin, tap mode
    let b = run_variant_plain::<T, F>(sc, false, &SchedSpec::sequentialish(), true);
    rep.executions += 1;
    rep.events += b.log.len() as u64;
    let world = World::<T>::from_scenario(sc);
    compare(sc, &mut rep, &a, &b, false, "SEQ_PAR_MISMATCH", "seq-vs-par", nrows, &world);

    // A': parallel in production mode: fit() + into_sequential must preserve what the tap run saw
    let has_fit = sc.ops.iter().any(|o| matches!(o, Op::Fit | Op::FitWithStatistics));
    if has_fit {
        if let Ok(ap) = run_variant::<T, F>(sc, true, &sc.sched, false) {
            rep.executions += 1;
            rep.events += ap.log.len() as u64;
            for (sa, sp) in a.steps.iter().zip(ap.steps.iter()) {
                if let (Extra::Tapped(t), Extra::Fit(f)) = (&sa.extra, &sp.extra) {
                    if t.termination != f.termination || t.evaluations != f.evaluations || t.objective.bits() != f.objective.bits() {
                        rep.violate(sc, "SEQ_PAR_MISMATCH", "fit-vs-tapped-parallel", format!("op {}: fit() on the parallel problem ended with {} ({}), the tapped optimizer with {} ({})", sa.op, f.termination, f.evaluations, t.termination, t.evaluations));
                    } else if sa.snap != sp.snap {
                        rep.violate(sc, "CONVERSION_CHANGED_STATE", "Fit/into_sequential", format!("op {}: the sequential problem returned by fit() does not expose the state the parallel problem had", sa.op));
                    } else {
                        rep.probe("fit_conversion_checked");
                    }
                    break;
                }
                if sa.snap != sp.snap {
                    break;
                }
            }
        }
    }
    // concurrent callers: every simultaneous caller must see what a lone caller sees
    concurrent_rule(sc, &mut rep, &a, "seeded-schedule");
    concurrent_rule(sc, &mut rep, &b, "sequential-twin");
    // explicit conversions: state before == state after
    for st in &a.steps {
        if let Extra::Converted { before } = &st.extra {
            let name = op_name(&sc.ops[st.op]);
            rep.probe(if name == "IntoParallel" { "into_parallel_checked" } else { "into_sequential_checked" });
            if Some(before) != st.snap.as_ref() {
                rep.violate(sc, "CONVERSION_CHANGED_STATE", name, format!("op {}: {} changed the reported state", st.op, name));
            }
        }
    }
    // A2, A3: other schedules and pool sizes, bitwise
    let mut rng = Rng::new(mix(sc.sched.tape_seed, "C11-alt", sc.index));
    let mut alts = vec![];
    for k in 0..2 {
        let mut s = gen_sched(&mut rng, true, false);
        if k == 0 {
            // a fully sequential pool as the anchor
            s.pool = 1;
        } else if s.pool == sc.sched.pool {
            s.pool = (s.pool % 16) + 1;
        }
        s.overlap = sc.sched.overlap && k == 1;
        if s.overlap {
            s.mix = [Fx(0.1), Fx(0.1), Fx(0.1), Fx(0.7)];
            s.pool = s.pool.max(2);
        }
        alts.push(s);
    }
    for s in &alts {
        match run_variant::<T, F>(sc, true, s, true) {
            Ok(v) => {
                rep.executions += 1;
                rep.events += v.log.len() as u64;
                compare(sc, &mut rep, &a, &v, true, "SCHEDULE_DEPENDENCE", if s.pool == 1 { "schedule-vs-1-thread-pool" } else { "schedule-vs-schedule" }, nrows, &world);
                concurrent_rule(sc, &mut rep, &v, "alternative-schedule");
                rep.probe_n("sched_joins", v.stats.joins);
                rep.probe_n("sched_inline", v.stats.inline);
                rep.probe_n("sched_stolen_late", v.stats.late);
                rep.probe_n("sched_stolen_early", v.stats.early);
                rep.probe_n("sched_overlapped", v.stats.overlap);
            }
            Err(p) => {
                rep.violate(sc, "DATA_RACE_OR_UB", &format!("parallel@{}", panic_site(&p)), format!("the parallel execution failed under an alternative schedule: {p}"));
            }
        }
    }
    rep.probe_n("sched_joins", a.stats.joins);
    rep.probe_n("sched_inline", a.stats.inline);
    rep.probe_n("sched_stolen_late", a.stats.late);
    rep.probe_n("sched_stolen_early", a.stats.early);
    rep.probe_n("sched_overlapped", a.stats.overlap);
    rep.probe(&format!("sched_pool_size_{:02}", sc.sched.pool));
    if sc.sched.overlap {
        rep.probe("sched_runs_in_overlap_mode");
    }
    // derivative failures under a stolen arm
    let stolen = a.stats.late + a.stats.early + a.stats.overlap;
    for e in &a.log {
        if e.fault.is_some() {
            rep.probe(&format!("fault_{}", e.kind.class()));
            if stolen > 0 {
                rep.probe("derivative_failure_under_stolen_arm");
            }
        }
    }
    // digest
    for st in &a.steps {
        if let Some(s) = &st.snap {
            rep.eat_bits(&s.params);
            if let Some(r) = &s.resid {
                rep.eat_bits(r);
            }
        }
        if let Extra::Jac(j) = &st.extra {
            if let Some(b) = &j.bits {
                rep.eat_bits(b);
            }
        }
    }
    // signature: pool size, outcome trace, column completion order
    if stolen > 0 {
        let order: Vec<String> = a
            .log
            .iter()
            .filter_map(|e| match e.kind {
                CallKind::Deriv(k) => Some(k.to_string()),
                CallKind::FuncDeriv(j, k) => Some(format!("{j}.{k}")),
                _ => None,
            })
            .take(24)
            .collect();
        let trace: String = a.stats.trace.iter().take(48).map(|c| char::from(b'0' + *c)).collect();
        rep.signatures = vec![format!("p{}|i{}|{}|{}|ov{}", sc.sched.pool, sc.sched.injected as u8, trace, order.join(","), sc.sched.overlap as u8)];
    }
    rep.sample = Some(serde_json::json!({
        "model": format!("{:?}", sc.model.funcs.iter().map(|f| (f.family, f.params.clone())).collect::<Vec<_>>()),
        "kind": format!("{:?}", sc.model.kind), "width": format!("{:?}", sc.width),
        "N": sc.n(), "S": sc.s(), "P": sc.model.nparams,
        "ops": sc.ops.iter().map(op_name).collect::<Vec<_>>(),
        "faults": sc.faults.iter().map(|f| format!("{:?}", f)).collect::<Vec<_>>(),
        "pool": sc.sched.pool, "injected": sc.sched.injected, "overlap": sc.sched.overlap,
        "join_outcomes(0=inline,1=late,2=early,3=overlap)": a.stats.trace.iter().take(32).collect::<Vec<_>>(),
        "derivative_call_order": a.log.iter().filter_map(|e| match e.kind { CallKind::Deriv(k) => Some(k), _ => None }).take(24).collect::<Vec<_>>(),
        "alternative_pools": alts.iter().map(|s| s.pool).collect::<Vec<_>>(),
    }));
    rep
}
