//! Property drivers: one module per claimed property. Each has
//! `generate(seed, index, thorough) -> Scenario` and `execute(&Scenario) -> RunReport`.

pub mod common;
pub mod c09;
pub mod c10;

use crate::report::RunReport;
use crate::spec::Scenario;

/// instantiate a generic driver for the scenario's scalar width and model kind
macro_rules! dispatch {
    ($sc:expr, $f:ident) => {
        match ($sc.width, $sc.model.kind) {
            (crate::spec::Width::F64, crate::spec::ModelKind::Hand) => {
                $f::<f64, crate::run::HandF>($sc)
            }
            (crate::spec::Width::F32, crate::spec::ModelKind::Hand) => {
                $f::<f32, crate::run::HandF>($sc)
            }
            (crate::spec::Width::F64, crate::spec::ModelKind::Builder) => {
                $f::<f64, crate::run::BuilderF>($sc)
            }
            (crate::spec::Width::F32, crate::spec::ModelKind::Builder) => {
                $f::<f32, crate::run::BuilderF>($sc)
            }
        }
    };
}
pub(crate) use dispatch;

pub const CLAIMED: [&str; 2] = ["C09", "C10"];

pub fn generate(prop: &str, seed: u64, index: u64, thorough: bool) -> Option<Scenario> {
    Some(match prop {
        "C09" => c09::generate(seed, index, thorough),
        "C10" => c10::generate(seed, index, thorough),
        _ => return None,
    })
}

pub fn execute(sc: &Scenario) -> Option<RunReport> {
    Some(match sc.property.as_str() {
        "C09" => c09::execute(sc),
        "C10" => c10::execute(sc),
        _ => return None,
    })
}

/// default number of runs per (property, tier)
pub fn default_runs(prop: &str, thorough: bool) -> u64 {
    match (prop, thorough) {
        ("C09", false) => 600,
        ("C09", true) => 40_000,
        ("C10", false) => 6_000,
        ("C10", true) => 400_000,
        _ => 1000,
    }
}

pub fn level(prop: &str) -> &'static str {
    match prop {
        "C09" | "C12" | "C17" => "fault_enumeration",
        _ => "exploration",
    }
}

pub fn rule(prop: &str) -> &'static str {
    match prop {
        "C10" => "Each seeded run generates one scenario (model, data, weights, operation script of 3-24 caller-driven ops with revisits, extreme parameters, failed updates, clones, conversions, an occasional whole fit) and executes it under 3 heap fill patterns; evaluations counts scenario executions. A run is non-trivial only if at least one bitwise comparison against a freshly built problem happened AND its pre-history contained a different parameter vector or a failed update. distinct = distinct signatures (model kind, flavour, and per comparison: op position, the two preceding op kinds, cache presence before, failed-update-in-history flag) among non-trivial runs.",
        "C09" => "Each seeded run generates one scenario (build -> 0-4 caller-driven ops -> fit or fit_with_statistics -> recovery update and Jacobian). 75% of runs enumerate: the scenario is executed fault-free to learn its sequence of model calls, then EVERY call position is re-executed with a transient failure, a persistent failure (and 'fail after mutating' for set_params; wrong-length closure output for builder-made models; a burst at every 7th position); 25% of runs execute a seeded 2-3 fault plan (bursts, heals, persistent). evaluations counts scenario executions (each with a tap-twin execution when a fit is present). An execution is non-trivial only if a fault actually fired; distinct = distinct signatures (model kind, flavour, kind of the failing call, phase build/pre/fit/post, persistence, action, outcome of the fit).",
        _ => "",
    }
}

pub fn components(_prop: &str) -> serde_json::Value {
    serde_json::json!({
        "real": ["varpro (built from /repo's working tree, feature parallel)", "levenberg-marquardt 0.14 optimizer", "nalgebra 0.33 (SVD, products, par_column_iter_mut producers)", "rayon 1.x iterator layer (bridge, splitter, collect into Result)", "varpro SeparableModelBuilder/SeparableModel for builder-made models", "distrs (Student-t)"],
        "simulated": ["rayon-core scheduling (fork rayon-core-sim: join/join_context/current_num_threads consult the seeded executor)", "user models and basis-function closures (fault plan at every call)", "heap contents at allocation (poisoning global allocator)"],
        "stubbed": []
    })
}

pub fn assumptions(prop: &str) -> Vec<String> {
    let mut v = vec![
        "sampling, not proof: a clean batch is evidence only for the scenarios generated".to_string(),
        "the simulated executor produces only join outcomes a real rayon pool can produce; races inside one column computation are outside its reach".to_string(),
        "floating-point arithmetic is deterministic for a fixed binary (bitwise oracles compare real code with real code)".to_string(),
    ];
    if prop == "C10" {
        v.push("heap garbage is modelled by three uniform fill patterns per scenario".into());
    }
    v
}
