//! Property drivers: one module per claimed property. Each has
//! `generate(seed, index, thorough) -> Scenario` and `execute(&Scenario) -> RunReport`.

pub mod common;
pub mod c02;
pub mod c04;
pub mod c06;
pub mod c08;
pub mod c09;
pub mod c12;
pub mod c17;
pub mod c10;
pub mod c11;

use crate::report::RunReport;
use crate::spec::Scenario;

/// instantiate a generic driver for the scenario's scalar width and model kind
macro_rules! dispatch {
    ($sc:expr, $f:ident) => {
        match ($sc.width, $sc.model.kind) {
            (crate::spec::Width::F64, crate::spec::ModelKind::Hand) => {
                $f::<f64, crate::run::HandF>($sc)
            }
            (crate::spec::Width::F32, crate::spec::ModelKind::Hand) => {
                $f::<f32, crate::run::HandF>($sc)
            }
            (crate::spec::Width::F64, crate::spec::ModelKind::Builder) => {
                $f::<f64, crate::run::BuilderF>($sc)
            }
            (crate::spec::Width::F32, crate::spec::ModelKind::Builder) => {
                $f::<f32, crate::run::BuilderF>($sc)
            }
        }
    };
}
pub(crate) use dispatch;

pub const CLAIMED: [&str; 9] = ["C02", "C04", "C06", "C08", "C09", "C10", "C11", "C12", "C17"];

/// build profiles a property is checked under
pub fn profiles(prop: &str) -> &'static [&'static str] {
    match prop {
        "C08" | "C12" => &["checked", "release"],
        _ => &["checked"],
    }
}

pub fn generate(prop: &str, seed: u64, index: u64, thorough: bool) -> Option<Scenario> {
    Some(match prop {
        "C02" => c02::generate(seed, index, thorough),
        "C04" => c04::generate(seed, index, thorough),
        "C06" => c06::generate(seed, index, thorough),
        "C08" => c08::generate(seed, index, thorough),
        "C09" => c09::generate(seed, index, thorough),
        "C10" => c10::generate(seed, index, thorough),
        "C11" => c11::generate(seed, index, thorough),
        "C12" => c12::generate(seed, index, thorough),
        "C17" => c17::generate(seed, index, thorough),
        _ => return None,
    })
}

pub fn execute(sc: &Scenario) -> Option<RunReport> {
    let _ = crate::run::take_fresh_refusal();
    let mut rep = execute_inner(sc)?;
    if let Some(e) = crate::run::take_fresh_refusal() {
        // a reference problem could not be built from the scenario's own (well-formed) inputs:
        // comparisons were skipped, which must not pass for "held"
        if common::wellformed(sc) && sc.property != "C08" && sc.property != "C17" {
            let kind: String = e.chars().take_while(|c| c.is_ascii_alphanumeric() || *c == '_').collect();
            rep.violate(sc, "BUILD_REJECTED", &format!("fresh/{kind}"), format!("build() of a fresh reference problem from the scenario's well-formed inputs returned {e}"));
        } else {
            rep.probe("fresh_reference_refused_malformed_input");
        }
    }
    Some(rep)
}

fn execute_inner(sc: &Scenario) -> Option<RunReport> {
    Some(match sc.property.as_str() {
        "C02" => c02::execute(sc),
        "C04" => c04::execute(sc),
        "C06" => c06::execute(sc),
        "C08" => c08::execute(sc),
        "C09" => c09::execute(sc),
        "C10" => c10::execute(sc),
        "C11" => c11::execute(sc),
        "C12" => c12::execute(sc),
        "C17" => c17::execute(sc),
        _ => return None,
    })
}

/// default number of runs per (property, tier)
pub fn default_runs(prop: &str, thorough: bool) -> u64 {
    match (prop, thorough) {
        ("C02", false) => 150_000,
        ("C02", true) => 10_000_000,
        ("C04", false) => 100_000,
        ("C04", true) => 8_000_000,
        ("C06", false) => 60_000,
        ("C06", true) => 4_000_000,
        ("C08", false) => 150_000,
        ("C08", true) => 8_000_000,
        ("C09", false) => 3_000,
        ("C09", true) => 60_000,
        ("C11", false) => 40_000,
        ("C11", true) => 2_500_000,
        ("C12", false) => 25_000,
        ("C12", true) => 1_500_000,
        ("C17", false) => 15_000,
        ("C17", true) => 1_500_000,
        ("C10", false) => 50_000,
        ("C10", true) => 4_000_000,
        _ => 1000,
    }
}

pub fn level(prop: &str) -> &'static str {
    match prop {
        "C09" | "C12" | "C17" => "fault_enumeration",
        _ => "exploration",
    }
}

pub fn rule(prop: &str) -> String {
    let body = match prop {
        "C10" => "Each seeded run generates one scenario (model, data, weights, operation script of 3-24 caller-driven ops with revisits, extreme parameters, failed updates, clones, conversions, an occasional whole fit) and executes it under 3 heap fill patterns; 8-12% of the scenarios are 'concurrent' variants: 1-2 ConcurrentQueries operations (2-4 caller threads querying residuals/coefficients/Jacobian of the shared problem through &self at the same time) are inserted and the whole pass runs inside the shuttle runtime under one seeded random/PCT schedule with scheduling points at every model call - every simultaneous caller must see bitwise what a lone caller saw immediately before (a race whose window contains no model call is out of reach of these callers: the miri layer listed under miri_layer runs three real caller threads under a high preemption rate for that); evaluations counts scenario executions. A run is non-trivial only if at least one bitwise comparison against a freshly built problem happened AND its pre-history contained a different parameter vector or a failed update. distinct = distinct signatures (model kind, flavour, and per comparison: op position, the two preceding op kinds, cache presence before, failed-update-in-history flag) among non-trivial runs.",
        "C09" => "Each seeded run generates one scenario (build -> 0-4 caller-driven ops incl. conversions into_sequential/into_parallel -> fit or fit_with_statistics -> recovery update and Jacobian). 75% of runs enumerate: the scenario is executed fault-free to learn its sequence of model calls, then EVERY call position (beyond 547 calls per scenario: the first 150, the last 60 and a stride over the middle, so that one scenario stays below ~300k model calls per plan) is re-executed with a transient failure, a persistent failure (and 'fail after mutating' for set_params; wrong-length closure output for builder-made models; a burst at every 7th position); 25% of runs execute a seeded 2-3 fault plan (bursts, heals, persistent). evaluations counts scenario executions (each with a tap-twin execution when a fit is present). An execution is non-trivial only if a fault actually fired; distinct = distinct signatures (model kind, flavour, kind of the failing call, phase build/pre/fit/post, persistence, action, outcome of the fit).",
        "C02" => "Each seeded run generates one scenario (model, observations with 1-4 columns, mostly non-trivial weights incl. zeros/negatives/wide ranges, operation script of 2-20 caller-driven updates/queries/weighted-data reads/conversions, usually a fit; 40% of hand-written-model runs have 1-2 transient model failures between good updates) and executes it once; after every operation the residual identity r = vec(W.Y - (W.Phi_ref(alpha)).C) is evaluated element-wise within a forward-error bound at the alpha the problem reports, weighted data are compared with w*y, best_fit with Phi_ref(alpha_hat)*C_hat, params with the last vector the model acknowledged. The FitResult is kept after a fit: in 40% of the scenarios with a fit the problem inside the result is updated 1-2 more times through the public field and the result's accessors (nonlinear_parameters, linear_coefficients, best_fit) are asked again - they must describe the state the problem is in then. One scenario in eight builds its problem with repeated builder setter calls (weights and/or observations set twice, the later call must replace the earlier). A run is non-trivial only if at least one residual identity was evaluated with weights that are not all ones AND a residual norm above 1e-6*||W.Y||; distinct = distinct signatures (model kind, width, flavour, API, S, M, sequence of update/weighted-data/fit outcomes).",
        "C04" => "Each seeded run generates one scenario (model, data exact or noisy, start exact/near/mid/far, optimizer knob swarm: patience 1-100, zero/huge/epsilon tolerances, tiny step bound, no diagonal scaling; 15% with a failing model) and executes one fit (or fit_with_statistics) twice: through LevMarSolver::fit and through the same optimizer on a tap around a twin problem. Every run with a completed fit is non-trivial; distinct = distinct signatures (model kind, model shape M/P and N bucket, flavour, API, termination reason, accepted steps 0..6+, ended on a restored rejected step, width, Ok/Err).",
        "C06" => "Each seeded run generates one scenario and one of three twin constructions: 'row-scaling' (problem A with weights w vs problem B whose basis functions and derivatives have row i multiplied by w_i inside the model and whose observations are w.Y, no weights; weights mild, 10^-6..10^6, with zeros, with negatives), 'unit-weights' (all-ones weights vs none) and 'zero-weight' (one weight exactly 0 vs that row deleted). Both twins are driven along the same history: build, 1-6 caller-driven updates/Jacobians/conversions (into_sequential, into_parallel) in lock-step, equal build() outcome of both twins, then A's optimizer runs through the tap and B is slaved to every parameter vector the optimizer applies (residuals and Jacobian compared at every step), then an independent fit_with_statistics on each twin (result, reduced chi2, covariance). evaluations counts the two twin executions per run. Every run is non-trivial; distinct = distinct signatures (twin kind, model kind, width, flavour, S, M, P, decades spanned by the weights, negatives, zeros, number of optimizer steps in lock-step).",
        "C08" => "Each seeded run generates one scenario in one of two regimes and executes it under BOTH build profiles, under the hang watchdog: 'far' (well-formed data, initial and caller-set parameters log-uniform over twelve decades with random signs, so that the optimizer walks into overflow on its own) and 'hostile' (cells of x, y, w, alpha, epsilon replaced with probability 2-15% by +-0, subnormals, +-MAX, +-inf, NaN; degenerate shapes N=1, N<M, N*S<P, duplicated abscissae; 12% mis-shaped: weights or observations of length 0, 1, N-1, N+1, 2N, N*S, N*S+1 instead of N; non-finite values injected into model/closure output at chosen calls, once/burst/forever). Operations: build, 0-2 set_params with Jacobians, fit or fit_with_statistics, confidence band, Jacobian. A run is non-trivial only if it actually reached a rejected (cache-empty) state, had non-finite inputs, or ended in an Err fit; distinct = distinct signatures (model kind, width, regime, flavour, N, M, P, S, fit outcome and termination reason, cache emptied, build accepted).",
        "C11" => "Each seeded run generates one scenario (model, data, operation script with updates, Jacobians, conversions, usually a fit; 20% with a failing partial derivative) and a schedule specification (simulated pool size 1-16, injected or not, probabilities of the four join outcomes inline / stolen-late / stolen-early / overlapped, tape seed; 10-20% in overlap mode under shuttle's seeded random or PCT scheduler). The scenario is executed as the parallel problem under that schedule (optimizer on a tap), as the sequential twin, as the parallel problem through LevMarSolver::fit, (which never converts, so that a lossy conversion of the parallel problem shows on its later use) and as the parallel problem under two further schedules (one of them a 1-thread pool); 6-8% of the scenarios additionally contain ConcurrentQueries operations (2-4 caller threads sharing the parallel problem, their column loops and stolen arms interleaved by shuttle's seeded scheduler; serialised in the sequential twin); every arm runs on a simulated worker (current_thread_index: a stolen arm on an idle worker); races between column tasks whose window contains no model call are out of reach of the simulated pool - the miri layer listed under miri_layer runs the real pool with fewer workers than columns under a high preemption rate for that; evaluations counts these executions. A run is non-trivial only if at least one arm was actually stolen; distinct = distinct signatures (pool size, injected, per-join outcome sequence, order in which derivative columns were computed, overlap mode).",
        "C12" => "Each seeded run generates one scenario with N - (M+P) drawn from {-3..+3, large}, weights on/off, both widths, optimizer knob swarm incl. patience 1 (failing fits), and executes fit_with_statistics under BOTH build profiles (overflow checks on / off). 88% of runs enumerate: after a fault-free execution (with a tap twin that locates the end of the optimizer), EVERY model-call position of the statistics computation is re-executed with a transient and a persistent model failure; 12% execute a seeded mid-fit failure. evaluations counts scenario executions. Every execution with a completed call is non-trivial; distinct = distinct signatures (model kind, model shape M/P, width, flavour, sign/size of N-(M+P) clamped to +-4, termination reason, Ok/Err, phase of the failure, weights).",
        "C17" => "Each seeded run generates one builder-made model (random parameter lists, arities 0-3, shared parameters, invariant functions) and a history of 3-24 bare-model calls: set_params with lengths {P,0,P-1,P+1,2P}, eval, eval_partial_deriv(k) with k in {0..P-1,P,P+7,usize::MAX}; the history is executed fault-free and then once for EVERY (closure, wrong length in {0,N-1,N+1,2N}) pair, the closure returning that length at a seeded call index. The reference model is the last accepted parameter vector. An execution is non-trivial only if a wrong-length output was actually returned or a wrong-length parameter vector was applied; distinct = distinct signatures (width, M, P, function/derivative closure, empty/shorter/longer, outcome sequence).",
        _ => "",
    };
    format!("{body} Bounds of the generators (nothing beyond them is explored): f64 and f32; basis functions from 9 (+1 rare) analytic families of arity 0-5 plus constant/linear terms, up to 10 of them sharing up to 20 nonlinear parameters (mostly <= 3 and <= 3); 0-96 samples (C12: up to M+P+200), also fewer samples than basis functions; 1-10 right-hand sides; weights none / ones / constant / mild / 6-12 decades / with zeros / with negatives; truncation threshold default, 1e-10..3, negative, exactly 0; observations over 40 decades of magnitude; grids ascending, descending, shifted, centred; caller-driven scripts of at most 24 operations; optimizer patience 1-100 with zero/epsilon/huge tolerances, tiny step bound, no scaling; simulated pools of 1-16 threads. 4% of scenarios are 'corner' runs that draw the rare options together. Hash-selected rare classes on top (each leaves all other scenarios unchanged): 1 in 400 'giant' in one dimension (65-80 nonlinear parameters over up to 40 functions; 11-130 right-hand sides incl. 16/17/32/33/64/65/128; 4 097-70 000 samples incl. exact multiples of 4096 and >= 2^16 basis-matrix elements; C12: 4 096-20 000 samples), 1 in 25 with the family tanh((x-x0)/w) (sensitive to the sign of a zero parameter) and update pairs that differ only in the sign of a zero, 1 in 40 with a positive truncation threshold far below machine epsilon (half of them with weights of 1e-25..1e-9 so that all singular values lie in between), 1 in 8 with repeated builder setter calls, 1 in 1000 small scenarios with 1 000-70 000 consecutive updates on one object (C08, C10), C12: 1 in 150 purely linear models without nonlinear parameters. Scalar types other than f32/f64 (complex numbers) are never instantiated.")
}

pub fn components(_prop: &str) -> serde_json::Value {
    serde_json::json!({
        "real": ["varpro (built from /repo's working tree, feature parallel)", "levenberg-marquardt 0.14 optimizer", "nalgebra 0.33 (SVD, products, par_column_iter_mut producers)", "rayon 1.x iterator layer (bridge, splitter, collect into Result)", "varpro SeparableModelBuilder/SeparableModel for builder-made models", "distrs (Student-t)"],
        "simulated": ["rayon-core scheduling (fork rayon-core-sim: join/join_context/current_num_threads consult the seeded executor)", "user models and basis-function closures (fault plan at every call)", "heap contents at allocation (poisoning global allocator)"],
        "stubbed": []
    })
}

pub fn assumptions(prop: &str) -> Vec<String> {
    let mut v = vec![
        "sampling, not proof: a clean batch is evidence only for the scenarios generated".to_string(),
        "the simulated executor produces only join outcomes a real rayon pool can produce; races inside one column computation are outside its reach".to_string(),
        "floating-point arithmetic is deterministic for a fixed binary (bitwise oracles compare real code with real code)".to_string(),
    ];
    if prop == "C10" {
        v.push("heap garbage is modelled by three uniform fill patterns per scenario".into());
    }
    v
}
