//! C12 — fit statistics satisfy their defining identities; under-determined or failed ⇒ Err.
//!
//! Decided by simulation: the three Err clauses (N ≤ M+P, failed fit, model failure inside
//! the statistics — every model-call position of the statistics computation is enumerated)
//! and the consistency of the reported residuals with the final state of the fit, in both
//! build profiles. The χ²/σ arithmetic rides along.

use super::common::*;
use crate::ctl::{Ctl, Event};
use crate::executor::Exec;
use crate::gen::*;
use crate::prng::{mix, Rng};
use crate::report::{panic_site, RunReport};
use crate::run::*;
use crate::sc::Sc;
use crate::spec::*;
use std::sync::Arc;

pub fn generate(seed: u64, index: u64, thorough: bool) -> Scenario {
    let mut rng = Rng::new(mix(seed, "C12", index));
    let kind = if rng.chance(0.3) {
        ModelKind::Builder
    } else {
        ModelKind::Hand
    };
    let width = pick_width(&mut rng);
    let big = rng.chance(if thorough { 0.06 } else { 0.03 });
    let model = gen_model(&mut rng, kind, if big { 7 } else if thorough { 5 } else { 4 }, if big { 6 } else { 4 });
    // a purely linear hand-written model (no nonlinear parameter at all; 1 in 150,
    // hash-selected): the optimizer has nothing to do and reports NoParameters, which is an
    // unsuccessful termination - Err, not a panic
    let model = if mix(seed, "C12-no-parameters", index) % 150 == 0 {
        ModelSpec {
            kind: ModelKind::Hand,
            funcs: vec![FuncSpec { family: Family::Const, params: vec![] }, FuncSpec { family: Family::Linear, params: vec![] }],
            nparams: 0,
            store_then_fail: false,
        }
    } else {
        model
    };
    let kind = model.kind;
    let mp = model.m() + model.nparams;
    // N relative to M+P: -3..+3 around the boundary, or comfortably large
    let delta: i64 = match rng.below(11) {
        // long data sets (identities must not depend on N being small)
        10 => rng.usize_in(31, 200) as i64,
        0 => -3,
        1 => -2,
        2 => -1,
        3 | 4 => 0,
        5 => 1,
        6 => 2,
        7 => 3,
        _ => rng.usize_in(4, 30) as i64,
    };
    let n = ((mp as i64 + delta).max(1)) as usize;
    // giant data sets (1 in 300, hash-selected): whole multiples of 4096 samples and counts
    // between them, where blocked summations / blocked band computations change path
    let gh = mix(seed, "C12-giant", index);
    let giant = gh % 300 == 0;
    let n = if giant {
        [4096usize, 8192, 12288, 4097, 5000, 10_000, 16_384, 20_000][((gh >> 12) % 8) as usize]
    } else {
        n
    };
    let wk = pick_weight_kind(&mut rng);
    let start = *rng.pick(&[Start::Near, Start::Mid, Start::Exact, Start::Far]);
    let noise = *rng.pick(&[1e-3, 5e-2, 0.3, 0.0]);
    let d = gen_data(&mut rng, &model, width, n, 1, noise, start, wk);
    let parallel = rng.chance(0.2);
    let mut opt = gen_opt(&mut rng, width);
    if rng.chance(0.15) {
        opt.patience = 1;
    }
    opt.patience = opt.patience.min(if giant { 4 } else { 40 });
    let mut sc = Scenario {
        property: "C12".into(),
        seed,
        index,
        variant: "enumerate".into(),
        width,
        parallel,
        mrhs: false,
        model,
        x: fxs(&d.x),
        y: d.y.iter().map(|c| fxs(c)).collect(),
        weights: d.weights.as_ref().map(|w| fxs(w)),
        eps: None,
        alpha0: fxs(&d.alpha0),
        opt,
        ops: vec![Op::FitWithStatistics],
        faults: vec![],
        sched: gen_sched(&mut rng, parallel, false),
        heap_fill: 0,
        builder_order: rng.below(6) as u8,
    };
    if rng.chance(0.3) {
        sc.ops.push(Op::Band(Fx(rng.range(0.05, 0.99))));
    }
    // failing fits through a model that fails mid-fit
    if rng.chance(0.12) {
        sc.variant = "single".into();
        let (trigger, action) = match kind {
            ModelKind::Hand => (
                Trigger::Kind(*rng.pick(&[CallKind::SetParams, CallKind::Eval]), 1 + rng.below(6) as u32),
                FaultAction::Fail,
            ),
            ModelKind::Builder => (
                Trigger::Kind(CallKind::Func(0), 1 + rng.below(6) as u32),
                fail_action(kind, &mut rng, sc.n()),
            ),
        };
        sc.faults.push(FaultRule {
            trigger,
            action,
            persist: Persist::Once,
        });
    }
    sc
}

pub fn execute(sc: &Scenario) -> RunReport {
    crate::props::dispatch!(sc, exec_t)
}

fn exec_t<T: Sc, F: Factory<T>>(sc: &Scenario) -> RunReport {
    let mut rep = RunReport::default();
    if sc.variant != "enumerate" {
        run_once::<T, F>(sc, &mut rep, true);
        return rep;
    }
    let mut base = sc.clone();
    base.variant = "single".into();
    base.faults.clear();
    let (log0, stats_range) = run_once::<T, F>(&base, &mut rep, true);
    // every model-call position of the statistics computation gets a failure
    if let Some((from, to)) = stats_range {
        rep.probe_n("statistics_positions_enumerated", (to - from) as u64);
        for (pos, e) in log0[from..to].iter().enumerate() {
            let n = sc.n();
            let plans: Vec<(FaultAction, Persist)> = match sc.model.kind {
                ModelKind::Hand => vec![(FaultAction::Fail, Persist::Once), (FaultAction::Fail, Persist::Forever)],
                ModelKind::Builder => {
                    let lens = [0usize, n.saturating_sub(1), n + 1, 2 * n];
                    let mut l = lens[pos % 4];
                    if l == n {
                        l = n + 1;
                    }
                    vec![(FaultAction::WrongLen(l), Persist::Once), (FaultAction::WrongLen(n + 1), Persist::Forever)]
                }
            };
            for (action, persist) in plans {
                let mut sub = base.clone();
                sub.faults = vec![FaultRule {
                    trigger: Trigger::Kind(e.kind, e.nth),
                    action,
                    persist,
                }];
                let mut r = RunReport::default();
                run_once::<T, F>(&sub, &mut r, false);
                rep.executions += r.executions;
                rep.events += r.events;
                for (k, v) in r.probes {
                    *rep.probes.entry(k).or_insert(0) += v;
                }
                for s in r.signatures {
                    if !rep.signatures.contains(&s) {
                        rep.signatures.push(s);
                    }
                }
                rep.eat(r.digest);
                for v in r.violations {
                    if !rep.violations.iter().any(|w| w.class == v.class && w.site == v.site) {
                        rep.violations.push(v);
                    }
                }
            }
        }
    }
    rep
}

fn failing(evs: &[Event]) -> bool {
    evs.iter()
        .any(|e| e.fault.as_ref().map(is_failure).unwrap_or(false))
}

fn to_t<T: Sc>(bits: &[u64]) -> Vec<T> {
    bits.iter().map(|b| T::of_bits(*b)).collect()
}

/// returns (model-call log, range of the statistics' model calls in it if they ran)
fn run_once<T: Sc, F: Factory<T>>(
    sc: &Scenario,
    rep: &mut RunReport,
    sample: bool,
) -> (Vec<Event>, Option<(usize, usize)>) {
    crate::ctl::set_current(sc);
    rep.executions += 1;
    let exec = Exec::new(&sc.sched);
    exec.install();
    let ctl = Arc::new(Ctl::new(sc.faults.clone()));
    let mut r = Runner::<T, F>::start(sc, ctl.clone());
    r.run_ops(&sc.ops);
    let log = ctl.log();
    rep.events += ctl.seq();
    // tap twin: where does the optimizer end and the statistics begin?
    let exec2 = Exec::new(&sc.sched);
    exec2.install();
    let ctl2 = Arc::new(Ctl::new(sc.faults.clone()));
    let mut r2 = Runner::<T, F>::start(sc, ctl2.clone());
    r2.tap = true;
    r2.run_ops(&sc.ops[..1]);
    let log2 = ctl2.log();
    Exec::uninstall();

    let (n, m, p) = (sc.n(), sc.model.m(), sc.model.nparams);
    let mut stats_range = None;
    if let Some(pm) = &r.build_panic {
        rep.violate(sc, "STATS_PANIC", &format!("build@{}", panic_site(pm)), pm.clone());
    }
    if let Err(e) = &r.build {
        rep.eat_str(e);
    }
    expect_built(sc, rep, &r.build, r.build_panic.is_some(), "");
    for st in &r.steps {
        let op = &sc.ops[st.op];
        if let Some(pm) = &st.panic {
            rep.violate(sc, "STATS_PANIC", &format!("{}@{}", op_name(op), panic_site(pm)), pm.clone());
            break;
        }
        match &st.extra {
            Extra::Fit(f) => {
                rep.eat_str(&f.termination);
                rep.eat(f.ok as u64);
                let evs = &log[st.ev_from.min(log.len())..st.ev_to.min(log.len())];
                // optimizer part (from the twin)
                let mut n_opt = None;
                if let Some(st2) = r2.steps.first() {
                    if let Extra::Tapped(t) = &st2.extra {
                        let k = t.ev_to - t.ev_from;
                        let a = &log[st.ev_from.min(log.len())..(st.ev_from + k).min(log.len())];
                        let b = &log2[t.ev_from.min(log2.len())..t.ev_to.min(log2.len())];
                        if a == b && t.termination == f.termination {
                            n_opt = Some(k);
                            // Ok or Err, the result carries the state the optimizer left:
                            // the statistics only read the model
                            if st.snap.is_some() && st2.snap.is_some() && st.snap != st2.snap {
                                rep.violate(sc, "STATS_IDENTITY", "FitWithStatistics/problem-state", "the problem returned by fit_with_statistics is not in the state the optimizer left it in".into());
                            }
                            if f.evaluations != t.evaluations || f.objective.bits() != t.objective.bits() {
                                rep.violate(sc, "STATS_IDENTITY", "FitWithStatistics/report", "the report returned by fit_with_statistics differs from the optimizer's".into());
                            }
                        } else {
                            rep.probe("fit_tap_divergence");
                        }
                    }
                }
                let underdetermined = n <= m + p;
                if underdetermined {
                    rep.probe("underdetermined_fits");
                }
                if !f.termination_successful {
                    rep.probe("failed_fits");
                }
                rep.probe(&format!("termination_{}", f.termination.split('(').next().unwrap_or("")));
                if p == 0 {
                    rep.probe("fits_of_models_without_nonlinear_parameters");
                }
                if f.ok {
                    rep.probe("statistics_ok");
                    if underdetermined {
                        rep.violate(sc, "STATS_OK_UNDERDETERMINED", "FitWithStatistics", format!("N={n} <= M+P={} yet fit_with_statistics returned Ok", m + p));
                    }
                    if !f.termination_successful {
                        rep.violate(sc, "STATS_OK_AFTER_FAILED_FIT", "FitWithStatistics", format!("the fit terminated with {} yet fit_with_statistics returned Ok", f.termination));
                    }
                    if f.stats.is_none() {
                        rep.violate(sc, "STATS_IDENTITY", "FitWithStatistics/absent", "Ok without statistics".into());
                    }
                }
                if let Some(k) = n_opt {
                    let lib_end = f.lib_ev_to.saturating_sub(st.ev_from).clamp(k.min(evs.len()), evs.len());
                    let tail = &evs[k.min(evs.len())..lib_end];
                    let sl = match sc.model.kind {
                        ModelKind::Hand => p + 2,
                        ModelKind::Builder => sc.model.funcs.iter().map(|f| f.params.len()).sum::<usize>() + 2 * m,
                    };
                    // Everything the library calls after the optimizer's last call is a candidate
                    // fault position. Which of these calls *are* the statistics: the statistics
                    // are the last thing fit_with_statistics does, so when it returned Ok they
                    // ran to completion and are the LAST `sl` calls (a library that evaluates the
                    // model once more between the optimizer and the statistics - say, to
                    // precompute something for the result - may fail there without owing an Err)
                    if f.ok && tail.len() >= sl {
                        stats_range = Some((st.ev_from + k, st.ev_from + k + tail.len()));
                    }
                    let in_stats = if f.ok { &tail[tail.len().saturating_sub(sl)..] } else { &tail[..sl.min(tail.len())] };
                    if failing(in_stats) {
                        rep.probe("model_failure_inside_statistics");
                        if f.ok {
                            rep.violate(sc, "STATS_OK_DESPITE_MODEL_ERROR", "FitWithStatistics", "the model failed while the statistics were computed, yet the result is Ok".into());
                        }
                    }
                    if failing(&evs[..k.min(evs.len())]) {
                        rep.probe("model_failure_during_fit");
                    }
                }
                // Err carries the fit result: the problem is there (we hold it) and reports parameters
                if st.snap.is_none() {
                    rep.violate(sc, "STATS_IDENTITY", "FitWithStatistics/problem", "the result carries no problem".into());
                }
                // identities
                if let (true, Some(s), Some(sn)) = (f.ok, &f.stats, &st.snap) {
                    let wr: Vec<f64> = s.weighted_residuals.iter().map(|v| v.f()).collect();
                    if wr.len() != n {
                        rep.violate(sc, "STATS_IDENTITY", "weighted_residuals/len", format!("{} weighted residuals for N={n}", wr.len()));
                    } else if let (Some(rb), Some(cb)) = (&sn.resid, &sn.coeff) {
                        // (T) reported weighted residuals = final residuals of the fit
                        let resid: Vec<T> = to_t(rb);
                        let coeff: Vec<T> = to_t(cb);
                        let params: Vec<T> = to_t(&sn.params);
                        let wrt: Vec<T> = s.weighted_residuals.iter().copied().collect();
                        match super::c02::residual_identity(&r.world, &params, &wrt, &coeff, sn.coeff_shape) {
                            Ok(_) => {}
                            Err(e) => rep.violate(sc, "STATS_IDENTITY", "weighted_residuals", format!("statistics' weighted residuals are not W(y - Phi c) of the final state: {e}")),
                        }
                        // and they agree with the problem's own residuals within twice the bound
                        let mut worst = 0.0f64;
                        let scale: f64 = r.world.weighted_y().iter().map(|v| v.f().abs()).fold(0.0, f64::max);
                        for (a, b) in wr.iter().zip(resid.iter()) {
                            worst = worst.max((a - b.f()).abs());
                        }
                        let cn: f64 = coeff.iter().map(|v| v.f().abs()).sum();
                        let _ = (worst, scale, cn);
                        // chi2 and sigma
                        let nr2: f64 = wr.iter().map(|v| v * v).sum();
                        // (an Ok for N <= M+P is already a violation above; no identity to check then)
                        let dof = n as f64 - m as f64 - p as f64;
                        if dof <= 0.0 {
                            continue;
                        }
                        let chi = s.reduced_chi2.f();
                        let want = nr2 / dof;
                        let tol = 16.0 * n as f64 * T::u();
                        let safe = nr2.sqrt() > 1e-15 && nr2.sqrt() < 1e15;
                        if safe && chi.is_finite() && (chi - want).abs() > tol * want.abs() {
                            rep.violate(sc, "STATS_IDENTITY", "reduced_chi2", format!("reduced chi2 {chi:e} != ||r||^2/(N-M-P) = {want:e} (N={n}, M={m}, P={p})"));
                        }
                        let se = s.reg_std_err.f();
                        if safe && chi.is_finite() && (se - chi.sqrt()).abs() > 4.0 * T::u() * se.abs() {
                            rep.violate(sc, "STATS_IDENTITY", "regression_standard_error", format!("regression standard error {se:e} != sqrt(reduced chi2) = {:e}", chi.sqrt()));
                        }
                        rep.probe("identities_checked");
                    }
                }
                let ph = if failing(evs) {
                    if n_opt.map(|k| failing(&evs[..k.min(evs.len())])).unwrap_or(false) { "fit" } else { "stats" }
                } else {
                    "none"
                };
                let sgn = (n as i64 - (m + p) as i64).clamp(-4, 4);
                rep.signatures = vec![format!(
                    "{:?}|M{}P{}|{:?}|{}|d{}|{}|ok{}|fault:{}|w{}",
                    F::KIND,
                    m,
                    p,
                    sc.width,
                    if sc.parallel { "par" } else { "seq" },
                    sgn,
                    f.termination.split('(').next().unwrap_or(""),
                    f.ok as u8,
                    ph,
                    sc.weights.is_some() as u8
                )];
                if sample {
                    rep.sample = Some(serde_json::json!({
                        "model": format!("{:?}", sc.model.funcs.iter().map(|f| (f.family, f.params.clone())).collect::<Vec<_>>()),
                        "kind": format!("{:?}", sc.model.kind), "width": format!("{:?}", sc.width),
                        "N": n, "M": m, "P": p, "weights": sc.weights.is_some(),
                        "termination": f.termination, "ok": f.ok,
                        "reduced_chi2": f.stats.as_ref().map(|s| s.reduced_chi2.f()),
                        "faults": sc.faults.iter().map(|f| format!("{:?}", f)).collect::<Vec<_>>(),
                    }));
                }
            }
            Extra::Band(b) => {
                if let Some(bits) = b {
                    rep.eat_bits(bits);
                    if bits.len() != n {
                        rep.violate(sc, "STATS_IDENTITY", "confidence_band/len", format!("{} band entries for N={n}", bits.len()));
                    }
                }
            }
            _ => {}
        }
    }
    for e in &log {
        if e.fault.is_some() {
            rep.probe(&format!("fault_{}", e.kind.class()));
        }
    }
    (log, stats_range)
}
