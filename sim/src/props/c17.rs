//! C17 — builder-made models report misuse as errors and keep their state intact.
//!
//! Seeded call histories on bare `SeparableModel`s whose closures misbehave at chosen call
//! indices; for each seeded model every (closure, wrong length) pair is enumerated.

use super::common::*;
use crate::ctl::Ctl;
use crate::gen::*;
use crate::model::build_separable;
use crate::prng::{mix, Rng};
use crate::refmath;
use crate::report::{panic_site, RunReport};
use crate::run::guarded;
use crate::sc::{mat_bits, vec_bits, vec_of, Sc};
use crate::spec::*;
use std::sync::Arc;
use varpro::model::errors::ModelError;
use varpro::prelude::SeparableNonlinearModel;

pub fn generate(seed: u64, index: u64, thorough: bool) -> Scenario {
    let mut rng = Rng::new(mix(seed, "C17", index));
    let sizes = pick_sizes(&mut rng, thorough, if thorough { 0.4 } else { 0.2 });
    let (mut sc, d) = base_scenario(
        &mut rng,
        "C17",
        seed,
        index,
        ModelKind::Builder,
        sizes,
        false,
        Start::Near,
        0.0,
    );
    sc.mrhs = false;
    sc.y.truncate(1);
    // degenerate sample counts: the builder accepts an empty independent variable, and a
    // single sample is legal too
    match rng.below(40) {
        0 => {
            sc.x.clear();
            sc.y[0].clear();
            sc.weights = None;
        }
        1 | 2 => {
            sc.x.truncate(1);
            sc.y[0].truncate(1);
            if let Some(w) = sc.weights.as_mut() {
                w.truncate(1);
            }
        }
        _ => {}
    }
    let p = sc.model.nparams;
    let long = rng.chance(0.2);
    let n_ops = rng.usize_in(3, if long { 24 } else { 10 });
    let mut ops = vec![];
    for _ in 0..n_ops {
        let r = rng.unit();
        if r < 0.35 {
            let len = match rng.below(7) {
                0 => 0,
                1 => p + 1,
                2 => p.saturating_sub(1),
                3 => 2 * p,
                _ => p,
            };
            let ext = rng.chance(0.1);
            let base = gen_alpha_update(&mut rng, &d.alpha_true, &[], sc.width, ext);
            let v: Vec<f64> = (0..len).map(|i| base[i % base.len()] * (1.0 + 0.01 * i as f64)).collect();
            let v: Vec<f64> = v.into_iter().map(|x| rw(sc.width, x)).collect();
            ops.push(Op::ModelSetParams(fxs(&v)));
        } else if r < 0.65 {
            ops.push(Op::ModelEval);
        } else {
            let k = match rng.below(10) {
                0 => p,
                1 => p + 7,
                2 => usize::MAX,
                // out of range, but congruent to a valid index modulo 2^32 / 2^16 / 2^8
                3 => (1usize << 32).wrapping_mul(rng.usize_in(1, 5)) + rng.usize_in(0, p - 1),
                4 => match rng.below(3) {
                    0 => (1usize << 16) + rng.usize_in(0, p - 1),
                    1 => (1usize << 8) + rng.usize_in(0, p - 1),
                    _ => (1usize << 63) + rng.usize_in(0, p - 1),
                },
                _ => rng.usize_in(0, p - 1),
            };
            ops.push(Op::ModelDeriv(k));
        }
    }
    sc.ops = ops;
    sc.variant = "enumerate".into();
    sc
}

pub fn execute(sc: &Scenario) -> RunReport {
    match sc.width {
        Width::F64 => exec_t::<f64>(sc),
        Width::F32 => exec_t::<f32>(sc),
    }
}

fn exec_t<T: Sc>(sc: &Scenario) -> RunReport {
    let mut rep = RunReport::default();
    if sc.variant != "enumerate" {
        run_once::<T>(sc, &mut rep, true);
        return rep;
    }
    let mut base = sc.clone();
    base.faults.clear();
    base.variant = "single".into();
    run_once::<T>(&base, &mut rep, true);
    // every (closure, wrong length) pair; the call index at which it strikes is seeded
    let n = sc.n();
    let mut rng = Rng::new(mix(sc.seed, "C17-positions", sc.index));
    let mut closures: Vec<CallKind> = vec![];
    for (j, f) in sc.model.funcs.iter().enumerate() {
        closures.push(CallKind::Func(j));
        for k in &f.params {
            closures.push(CallKind::FuncDeriv(j, *k));
        }
    }
    // two (three) closures of the SAME evaluation misbehave with lengths that cancel in the
    // total (n+2 and n-2, 2n and empty, n+1 / n+1 / n-2): a check on the total number of
    // elements instead of on every output would pass them
    let mut plans: Vec<Vec<FaultRule>> = vec![];
    let m = sc.model.m();
    if m >= 2 && n >= 1 {
        let nth = rng.below(3) as u32;
        let persist = if rng.chance(0.5) { Persist::Forever } else { Persist::Once };
        let (j1, j2) = (rng.usize_in(0, m - 1), rng.usize_in(0, m - 2));
        let j2 = if j2 >= j1 { j2 + 1 } else { j2 };
        let d = rng.usize_in(1, n.min(3));
        for (a, b) in [(n + d, n - d), (2 * n, 0), (0, 2 * n)] {
            plans.push(vec![
                FaultRule { trigger: Trigger::Kind(CallKind::Func(j1), nth), action: FaultAction::WrongLen(a), persist },
                FaultRule { trigger: Trigger::Kind(CallKind::Func(j2), nth), action: FaultAction::WrongLen(b), persist },
            ]);
        }
        if m >= 3 && n >= 2 {
            let j3 = (0..m).find(|j| *j != j1 && *j != j2).unwrap();
            plans.push(vec![
                FaultRule { trigger: Trigger::Kind(CallKind::Func(j1), nth), action: FaultAction::WrongLen(n + 1), persist },
                FaultRule { trigger: Trigger::Kind(CallKind::Func(j2), nth), action: FaultAction::WrongLen(n + 1), persist },
                FaultRule { trigger: Trigger::Kind(CallKind::Func(j3), nth), action: FaultAction::WrongLen(n - 2), persist },
            ]);
        }
        // two functions depending on the same parameter: their derivative closures
        for k in 0..sc.model.nparams {
            let users: Vec<usize> = sc.model.funcs.iter().enumerate().filter(|(_, f)| f.params.contains(&k)).map(|(j, _)| j).collect();
            if users.len() >= 2 {
                plans.push(vec![
                    FaultRule { trigger: Trigger::Kind(CallKind::FuncDeriv(users[0], k), nth), action: FaultAction::WrongLen(n + d), persist },
                    FaultRule { trigger: Trigger::Kind(CallKind::FuncDeriv(users[1], k), nth), action: FaultAction::WrongLen(n - d), persist },
                ]);
                break;
            }
        }
    }
    for plan in plans {
        let mut sub = base.clone();
        sub.faults = plan;
        let mut r = RunReport::default();
        run_once::<T>(&sub, &mut r, false);
        rep.executions += r.executions;
        rep.events += r.events;
        rep.probe("complementary_wrong_length_plans");
        for (k, v) in r.probes {
            *rep.probes.entry(k).or_insert(0) += v;
        }
        rep.eat(r.digest);
        for v in r.violations {
            if !rep.violations.iter().any(|w| w.class == v.class && w.site == v.site) {
                rep.violations.push(v);
            }
        }
    }
    for c in closures {
        for len in [0usize, n.saturating_sub(1), n + 1, 2 * n + 3] {
            if len == n {
                continue;
            }
            let mut sub = base.clone();
            sub.faults = vec![FaultRule {
                trigger: Trigger::Kind(c, rng.below(3) as u32),
                action: FaultAction::WrongLen(len),
                persist: if rng.chance(0.25) {
                    Persist::Forever
                } else {
                    Persist::Once
                },
            }];
            let mut r = RunReport::default();
            run_once::<T>(&sub, &mut r, false);
            rep.executions += r.executions;
            rep.events += r.events;
            for (k, v) in r.probes {
                *rep.probes.entry(k).or_insert(0) += v;
            }
            for s in r.signatures {
                if !rep.signatures.contains(&s) {
                    rep.signatures.push(s);
                }
            }
            rep.eat(r.digest);
            for v in r.violations {
                if !rep.violations.iter().any(|w| w.class == v.class && w.site == v.site) {
                    rep.violations.push(v);
                }
            }
        }
    }
    rep
}

fn run_once<T: Sc>(sc: &Scenario, rep: &mut RunReport, sample: bool) {
    crate::ctl::set_current(sc);
    rep.executions += 1;
    let ctl = Arc::new(Ctl::new(sc.faults.clone()));
    let x = vec_of::<T>(&unfx(&sc.x));
    let alpha0: Vec<T> = sc.alpha0.iter().map(|v| T::of(v.0)).collect();
    let n = x.len();
    let m = sc.model.m();
    let p = sc.model.nparams;
    crate::ctl::set_phase("model-build");
    let built = guarded(|| build_separable::<T>(&sc.model, x.clone(), alpha0.clone(), ctl.clone(), None));
    let mut model = match built {
        Ok(Ok(mo)) => mo,
        Ok(Err(e)) => {
            rep.eat_str(&e);
            return;
        }
        Err(pm) => {
            rep.violate(sc, "MODEL_PANIC", &format!("build@{}", panic_site(&pm)), pm);
            return;
        }
    };
    // reference state machine: the last accepted parameter vector
    let mut accepted: Vec<T> = alpha0.clone();
    let mut rejected_updates = 0u64;
    let mut faults_hit = 0u64;
    let mut sig: Vec<String> = vec![];
    for (i, op) in sc.ops.iter().enumerate() {
        crate::ctl::set_phase(op_name(op));
        let ev_from = ctl.log_len();
        match op {
            Op::ModelSetParams(v) => {
                let vt: Vec<T> = v.iter().map(|f| T::of(f.0)).collect();
                let arg = nalgebra::DVector::from_column_slice(&vt);
                let vlen = vt.len();
                match guarded(|| model.set_params(arg)) {
                    Err(pm) => {
                        rep.violate(sc, "MODEL_PANIC", &format!("set_params@{}", panic_site(&pm)), pm);
                        return;
                    }
                    Ok(res) => {
                        if vt.len() == p {
                            if res.is_err() {
                                rep.violate(sc, "BAD_ERROR_VALUE", "set_params", format!("op {i}: a parameter vector of the right length was rejected: {res:?}"));
                            } else {
                                accepted = vt;
                            }
                        } else {
                            rejected_updates += 1;
                            match res {
                                Ok(()) => rep.violate(sc, "WRONG_SHAPE_ACCEPTED", "set_params", format!("op {i}: a parameter vector of length {} was accepted by a model with {p} parameters", vt.len())),
                                Err(ModelError::IncorrectParameterCount { expected, actual }) if expected == p && actual == vt.len() => {}
                                Err(e) => rep.violate(sc, "BAD_ERROR_VALUE", "set_params", format!("op {i}: wrong error for a parameter vector of length {}: {e:?}", vt.len())),
                            }
                        }
                        // the parameters the model reports are the accepted ones, unchanged
                        let now = vec_bits(&model.params());
                        let want: Vec<u64> = accepted.iter().map(|v| v.bits()).collect();
                        if now != want {
                            rep.violate(sc, "STATE_CHANGED_BY_REJECTED_UPDATE", "params", format!("op {i}: params() is not the last accepted parameter vector"));
                        }
                        sig.push(format!("s{}", (vlen == p) as u8));
                    }
                }
            }
            Op::ModelEval | Op::ModelDeriv(_) => {
                let is_eval = matches!(op, Op::ModelEval);
                let k = if let Op::ModelDeriv(k) = op { *k } else { 0 };
                let res = guarded(|| if is_eval { model.eval() } else { model.eval_partial_deriv(k) });
                let res = match res {
                    Err(pm) => {
                        let site = if is_eval { "eval" } else { "eval_partial_deriv" };
                        rep.violate(sc, "MODEL_PANIC", &format!("{site}@{}", panic_site(&pm)), pm);
                        return;
                    }
                    Ok(r) => r,
                };
                let site = if is_eval { "eval" } else { "eval_partial_deriv" };
                let evs = ctl.log_since(ev_from);
                let injected: Vec<usize> = evs
                    .iter()
                    .filter_map(|e| match e.fault {
                        Some(FaultAction::WrongLen(l)) => Some(l),
                        _ => None,
                    })
                    .collect();
                faults_hit += injected.len() as u64;
                if !is_eval && k >= p {
                    match &res {
                        Err(ModelError::DerivativeIndexOutOfBounds { index }) if *index == k => {}
                        Err(e) => rep.violate(sc, "BAD_ERROR_VALUE", site, format!("op {i}: derivative index {k} >= P={p} gave {e:?}")),
                        Ok(_) => rep.violate(sc, "WRONG_SHAPE_ACCEPTED", site, format!("op {i}: derivative index {k} >= P={p} was accepted")),
                    }
                    if !evs.is_empty() {
                        rep.violate(sc, "BAD_ERROR_VALUE", site, format!("op {i}: user functions were called for an out-of-range derivative index"));
                    }
                    sig.push("oob".into());
                } else if !injected.is_empty() {
                    match &res {
                        Err(ModelError::UnexpectedFunctionOutput { expected_length, actual_length })
                            if *expected_length == n && injected.contains(actual_length) => {}
                        Err(e) => rep.violate(sc, "BAD_ERROR_VALUE", site, format!("op {i}: a closure returned a vector of length {injected:?} (N={n}) and the model answered {e:?}")),
                        Ok(mat) => rep.violate(sc, "WRONG_SHAPE_ACCEPTED", site, format!("op {i}: a closure returned a vector of length {injected:?} (N={n}), yet the model returned a {}x{} matrix", mat.nrows(), mat.ncols())),
                    }
                    sig.push(format!("f{}", is_eval as u8));
                } else {
                    match &res {
                        Err(e) => rep.violate(sc, "BAD_ERROR_VALUE", site, format!("op {i}: a well-formed call failed with {e:?}")),
                        Ok(mat) => {
                            if mat.shape() != (n, m) {
                                rep.violate(sc, "EVAL_SHAPE", site, format!("op {i}: result is {}x{}, expected {n}x{m}", mat.nrows(), mat.ncols()));
                            } else {
                                let want = if is_eval {
                                    refmath::phi::<T>(&sc.model, &x, &accepted)
                                } else {
                                    refmath::dphi::<T>(&sc.model, k, &x, &accepted)
                                };
                                if mat_bits(mat) != mat_bits(&want) {
                                    let class = if rejected_updates > 0 {
                                        "STATE_CHANGED_BY_REJECTED_UPDATE"
                                    } else {
                                        "EVAL_SHAPE"
                                    };
                                    rep.violate(sc, class, site, format!("op {i}: the result is not the user functions evaluated at the last accepted parameters"));
                                }
                                rep.eat_bits(&mat_bits(mat));
                            }
                        }
                    }
                    sig.push(format!("ok{}", is_eval as u8));
                }
            }
            _ => {}
        }
    }
    rep.events += ctl.seq();
    rep.eat(crate::ctl::log_digest(&ctl.log()));
    rep.probe_n("fault_wrong_len_fired", faults_hit);
    rep.probe_n("rejected_parameter_vectors", rejected_updates);
    if faults_hit > 0 || rejected_updates > 0 {
        let f = sc.faults.first().map(|f| match f.trigger {
            Trigger::Kind(CallKind::Func(_), _) => "func",
            Trigger::Kind(CallKind::FuncDeriv(..), _) => "deriv",
            _ => "other",
        });
        let l = sc.faults.first().map(|f| match f.action {
            FaultAction::WrongLen(0) => "empty",
            FaultAction::WrongLen(l) if l < n => "shorter",
            FaultAction::WrongLen(_) => "longer",
            _ => "-",
        });
        rep.signatures = vec![format!("{:?}|M{}|P{}|{:?}|{:?}|{}", sc.width, m, p, f, l, sig.join(""))];
    }
    if sample {
        rep.sample = Some(serde_json::json!({
            "model": format!("{:?}", sc.model.funcs.iter().map(|f| (f.family, f.params.clone())).collect::<Vec<_>>()),
            "width": format!("{:?}", sc.width), "N": n, "P": p,
            "ops": sc.ops.iter().map(|o| match o {
                Op::ModelSetParams(v) => format!("set_params(len {})", v.len()),
                Op::ModelDeriv(k) => format!("eval_partial_deriv({k})"),
                o => op_name(o).to_string(),
            }).collect::<Vec<_>>(),
            "faults": sc.faults.iter().map(|f| format!("{:?}", f)).collect::<Vec<_>>(),
        }));
    }
}
