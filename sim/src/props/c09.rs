//! C09 — model failures propagate as absent values and failed fits, never as stale data.
//!
//! Fault enumeration: a seeded scenario (build → caller-driven script → fit (with
//! statistics) → recovery update) is first executed fault-free to learn its sequence of
//! model calls; then every call position gets a transient and a persistent failure (plus
//! "fail after mutating" for `set_params`), one re-execution each.

use super::common::*;
use crate::ctl::{Ctl, Event};
use crate::executor::Exec;
use crate::gen::*;
use crate::prng::{mix, Rng};
use crate::prob::{TapEvent, TapKind};
use crate::report::{panic_site, RunReport};
use crate::run::*;
use crate::sc::Sc;
use crate::spec::*;
use std::sync::Arc;

pub fn generate(seed: u64, index: u64, thorough: bool) -> Scenario {
    let mut rng = Rng::new(mix(seed, "C09", index));
    let kind = if rng.chance(0.35) {
        ModelKind::Builder
    } else {
        ModelKind::Hand
    };
    let sizes = if rng.chance(if thorough { 0.2 } else { 0.06 }) { LARGE } else { SMALL };
    let parallel = rng.chance(0.25);
    let start = *rng.pick(&[Start::Near, Start::Mid, Start::Mid, Start::Exact]);
    let noise = *rng.pick(&[0.0, 1e-3, 5e-2]);
    let (mut sc, d) = base_scenario(&mut rng, "C09", seed, index, kind, sizes, parallel, start, noise);
    sc.opt.patience = rng.usize_in(1, if thorough { 14 } else { 8 });
    if parallel && rng.chance(0.3) {
        // truly overlapped arms (shuttle): the schedule decides which column meets a failing derivative
        sc.sched = gen_sched(&mut rng, true, true);
        sc.sched.overlap = true;
        sc.sched.pool = sc.sched.pool.max(2);
        sc.sched.mix = [Fx(0.1), Fx(0.1), Fx(0.1), Fx(0.7)];
    }
    // caller-driven prefix
    let pre = gen_script(
        &mut rng,
        &sc,
        &d,
        ScriptCfg {
            min_ops: 0,
            max_ops: 4,
            allow_extreme: false,
            p_fit: 0.0,
            allow_clone: false,
            allow_into_seq: true,
            allow_band: false,
        },
    );
    let mut ops = pre;
    if rng.chance(0.9) {
        ops.push(if sc.mrhs || rng.chance(0.25) {
            Op::Fit
        } else {
            Op::FitWithStatistics
        });
    }
    // recovery: a further update and a look at the Jacobian
    if rng.chance(0.8) {
        let a = gen_alpha_update(&mut rng, &d.alpha_true, &[], sc.width, false);
        ops.push(Op::SetParams(fxs(&a)));
        if rng.chance(0.7) {
            ops.push(Op::Jacobian);
        }
        if rng.chance(0.3) {
            let a = gen_alpha_update(&mut rng, &d.alpha0, &[], sc.width, false);
            ops.push(Op::SetParams(fxs(&a)));
        }
    }
    if ops.is_empty() {
        ops.push(Op::Jacobian);
    }
    sc.ops = ops;
    if rng.chance(0.25) {
        // seeded multi-fault plan instead of the single-fault enumeration
        sc.variant = "multi".into();
        let nf = rng.usize_in(2, 3);
        for _ in 0..nf {
            let persist = match rng.below(4) {
                0 => Persist::Forever,
                1 => Persist::Burst(rng.usize_in(2, 8) as u32),
                _ => Persist::Once,
            };
            let (trigger, action) = match kind {
                ModelKind::Hand => match rng.below(4) {
                    0 => (
                        Trigger::Kind(CallKind::SetParams, rng.below(12) as u32),
                        if rng.chance(0.5) {
                            FaultAction::FailAfterMutate
                        } else {
                            FaultAction::Fail
                        },
                    ),
                    1 => (Trigger::Kind(CallKind::Eval, rng.below(14) as u32), FaultAction::Fail),
                    2 => (
                        Trigger::Kind(
                            CallKind::Deriv(rng.usize_in(0, sc.model.nparams - 1)),
                            rng.below(8) as u32,
                        ),
                        FaultAction::Fail,
                    ),
                    _ => (Trigger::Global(rng.below(60)), FaultAction::Fail),
                },
                ModelKind::Builder => {
                    if rng.chance(0.3) {
                        (Trigger::Global(rng.below(80)), fail_action(kind, &mut rng, sc.n()))
                    } else {
                        let j = rng.usize_in(0, sc.model.m() - 1);
                        let f = &sc.model.funcs[j];
                        let ck = if !f.params.is_empty() && rng.chance(0.5) {
                            CallKind::FuncDeriv(j, *rng.pick(&f.params))
                        } else {
                            CallKind::Func(j)
                        };
                        (
                            Trigger::Kind(ck, rng.below(10) as u32),
                            fail_action(kind, &mut rng, sc.n()),
                        )
                    }
                }
            };
            sc.faults.push(FaultRule {
                trigger,
                action,
                persist,
            });
        }
    } else {
        sc.variant = "enumerate".into();
    }
    sc
}

pub fn execute(sc: &Scenario) -> RunReport {
    crate::props::dispatch!(sc, exec_t)
}

fn exec_t<T: Sc, F: Factory<T>>(sc: &Scenario) -> RunReport {
    let mut rep = RunReport::default();
    if sc.variant != "enumerate" {
        run_once::<T, F>(sc, &mut rep, true);
        return rep;
    }
    // pass 0: fault-free, learn the call sequence
    let mut base = sc.clone();
    base.faults.clear();
    base.variant = "single".into();
    let log0 = run_once::<T, F>(&base, &mut rep, true);
    let n = sc.n();
    // Work bound per scenario: every position costs one complete re-execution (~ log0.len()
    // model calls). Up to 550 calls every position is enumerated; beyond that (only reachable
    // with the largest patience of the thorough tier, or when a change to the library makes
    // fits longer) a deterministic subset is taken: every call before the fit and in the
    // first 150 calls, the last 60 calls (final restore, statistics, recovery), and a
    // stride over the middle, so that a scenario costs at most ~300k model calls per plan.
    let len = log0.len();
    let budget = (300_000 / len.max(1)).max(210);
    let stride = if len > budget { (len - 210 + (budget - 210)) / (budget - 210).max(1) } else { 1 };
    let mut enumerated = 0u64;
    for (pos, e) in log0.iter().enumerate() {
        if stride > 1 && !(pos < 150 || pos + 60 >= len || pos % stride == 0) {
            continue;
        }
        enumerated += 1;
        let mut plans: Vec<(FaultAction, Persist)> = vec![];
        match sc.model.kind {
            ModelKind::Hand => {
                plans.push((FaultAction::Fail, Persist::Once));
                plans.push((FaultAction::Fail, Persist::Forever));
                if e.kind == CallKind::SetParams {
                    plans.push((FaultAction::FailAfterMutate, Persist::Once));
                }
            }
            ModelKind::Builder => {
                let lens = [0usize, n.saturating_sub(1), n + 1, 2 * n];
                plans.push((FaultAction::WrongLen(lens[pos % 4]), Persist::Once));
                plans.push((FaultAction::WrongLen(lens[(pos / 4 + 1) % 4]), Persist::Forever));
            }
        }
        if pos % 7 == 3 {
            plans.push((plans[0].0, Persist::Burst(2 + (pos % 5) as u32)));
        }
        for (action, persist) in plans {
            let mut sub = base.clone();
            sub.faults = vec![FaultRule {
                trigger: Trigger::Kind(e.kind, e.nth),
                action,
                persist,
            }];
            let mut r = RunReport::default();
            run_once::<T, F>(&sub, &mut r, false);
            rep.executions += r.executions;
            rep.events += r.events;
            for (k, v) in r.probes {
                *rep.probes.entry(k).or_insert(0) += v;
            }
            for s in r.signatures {
                if !rep.signatures.contains(&s) {
                    rep.signatures.push(s);
                }
            }
            rep.eat(r.digest);
            for v in r.violations {
                if !rep
                    .violations
                    .iter()
                    .any(|w| w.class == v.class && w.site == v.site)
                {
                    rep.violations.push(v);
                }
            }
        }
    }
    rep.probe_n("enumerated_positions", enumerated);
    if stride > 1 {
        rep.probe("position_subset_taken");
        rep.probe_n("positions_skipped_by_work_bound", len as u64 - enumerated);
    }
    rep
}

fn failing(evs: &[Event]) -> bool {
    evs.iter()
        .any(|e| e.fault.as_ref().map(is_failure).unwrap_or(false))
}

fn slice(log: &[Event], from: usize, to: usize) -> &[Event] {
    &log[from.min(log.len())..to.min(log.len())]
}

/// number of model calls a complete statistics computation makes
fn stats_len(sc: &Scenario) -> usize {
    match sc.model.kind {
        ModelKind::Hand => sc.model.nparams + 2,
        ModelKind::Builder => {
            let d: usize = sc.model.funcs.iter().map(|f| f.params.len()).sum();
            d + 2 * sc.model.m()
        }
    }
}

fn phase_of(sc: &Scenario, op: Option<usize>) -> &'static str {
    match op {
        None => "build",
        Some(i) => match &sc.ops[i] {
            Op::Fit | Op::FitWithStatistics => "fit",
            _ => {
                if sc.ops[..i]
                    .iter()
                    .any(|o| matches!(o, Op::Fit | Op::FitWithStatistics))
                {
                    "post"
                } else {
                    "pre"
                }
            }
        },
    }
}

/// Execute one materialised scenario (production pass + tap twin) and apply the oracle.
/// Returns the model-seam log of the production pass.
fn run_once<T: Sc, F: Factory<T>>(sc: &Scenario, rep: &mut RunReport, sample: bool) -> Vec<Event> {
    if !(sc.parallel && sc.sched.overlap) {
        return run_once_inner::<T, F>(sc, rep, sample);
    }
    // overlap mode: the whole execution (both passes and the oracle's fresh problems) runs
    // inside the shuttle runtime, so that stolen arms of the parallel Jacobian truly overlap
    // and the column that meets the failing derivative is decided by shuttle's schedule
    type Out = Arc<std::sync::Mutex<Option<(RunReport, Vec<Event>)>>>;
    let out: Out = Arc::new(std::sync::Mutex::new(None));
    let out2 = out.clone();
    let scc = sc.clone();
    let seed = sc.sched.shuttle_seed;
    let mut cfg = shuttle::Config::new();
    cfg.stack_size = 1 << 21;
    cfg.failure_persistence = shuttle::FailurePersistence::None;
    cfg.max_steps = shuttle::MaxSteps::FailAfter(5_000_000);
    cfg.silence_warnings = true;
    let res = guarded(move || {
        let sch = shuttle::scheduler::RandomScheduler::new_from_seed(seed, 1);
        shuttle::Runner::new(sch, cfg).run(move || {
            let _scope = crate::ctl::ShuttleScope::enter();
            let mut r = RunReport::default();
            let log = run_once_inner::<T, F>(&scc, &mut r, sample);
            *out2.lock().unwrap() = Some((r, log));
        });
    });
    Exec::uninstall();
    let taken = out.lock().unwrap().take();
    match (res, taken) {
        (Ok(()), Some((r, log))) => {
            rep.executions += r.executions;
            rep.events += r.events;
            for (k, v) in r.probes {
                *rep.probes.entry(k).or_insert(0) += v;
            }
            rep.probe("sched_runs_in_overlap_mode");
            for sg in r.signatures {
                if !rep.signatures.contains(&sg) {
                    rep.signatures.push(sg);
                }
            }
            rep.eat(r.digest);
            for v in r.violations {
                if !rep.violations.iter().any(|w| w.class == v.class && w.site == v.site) {
                    rep.violations.push(v);
                }
            }
            if rep.sample.is_none() {
                rep.sample = r.sample;
            }
            log
        }
        (Err(p), _) => {
            rep.executions += 1;
            rep.violate(sc, "PANIC", &format!("overlap@{}", panic_site(&p)), p);
            vec![]
        }
        _ => vec![],
    }
}

fn run_once_inner<T: Sc, F: Factory<T>>(sc: &Scenario, rep: &mut RunReport, sample: bool) -> Vec<Event> {
    crate::ctl::set_current(sc);
    rep.executions += 1;
    // ---- production pass ----
    let exec = Exec::new(&sc.sched);
    exec.install();
    let ctl = Arc::new(Ctl::new(sc.faults.clone()));
    ctl.set_overlap(sc.parallel && sc.sched.overlap);
    let mut r = Runner::<T, F>::start(sc, ctl.clone());
    r.run_ops(&sc.ops);
    let log = ctl.log();
    rep.events += ctl.seq();
    // ---- tap twin (only if there is a fit) ----
    let has_fit = sc
        .ops
        .iter()
        .any(|o| matches!(o, Op::Fit | Op::FitWithStatistics));
    let mut tap_run: Option<(Runner<T, F>, Vec<Event>)> = None;
    if has_fit {
        let exec2 = Exec::new(&sc.sched);
        exec2.install();
        let ctl2 = Arc::new(Ctl::new(sc.faults.clone()));
        ctl2.set_overlap(sc.parallel && sc.sched.overlap);
        let mut r2 = Runner::<T, F>::start(sc, ctl2.clone());
        r2.tap = true;
        r2.run_ops(&sc.ops);
        let l2 = ctl2.log();
        tap_run = Some((r2, l2));
        rep.probe("tap_twin_runs");
        exec.install();
    }

    // digest
    for st in &r.steps {
        if let Some(s) = &st.snap {
            rep.eat_bits(&s.params);
            rep.eat(s.resid.is_some() as u64);
            if let Some(b) = &s.resid {
                rep.eat_bits(b);
            }
        }
        if let Extra::Fit(f) = &st.extra {
            rep.eat_str(&f.termination);
            rep.eat(f.ok as u64);
        }
        if let Extra::Jac(j) = &st.extra {
            rep.eat(j.bits.is_some() as u64);
        }
    }
    rep.eat(crate::ctl::log_digest(&log));

    // per-kind fault counters
    for e in &log {
        if let Some(f) = &e.fault {
            let a = match f {
                FaultAction::Fail => "fail",
                FaultAction::FailAfterMutate => "fail_after_mutate",
                FaultAction::NonFinite(..) => "nonfinite",
                FaultAction::WrongLen(_) => "wrong_len",
            };
            rep.probe(&format!("fault_{}_{}", e.kind.class(), a));
        }
    }

    // ---- oracle ----
    let mut sig_parts: Vec<String> = vec![];
    let first_fault: Option<&Event> = log.iter().find(|e| e.fault.is_some());
    let any_fault_fired = first_fault.is_some();
    if let Some(p) = &r.build_panic {
        rep.violate(sc, "PANIC", &format!("build@{}", panic_site(p)), p.clone());
    }
    if sc.faults.is_empty() {
        expect_built(sc, rep, &r.build, r.build_panic.is_some(), "");
    }
    let mut poisoned = false;
    let mut fault_seen_before = false;
    let check_present = |rep: &mut RunReport, s: &Snap, site: &str, recovered: bool, world: &World<T>, cache_par: bool| {
        // rule 3 / 6: whatever is present must be the fault-free state for the reported α
        if s.resid.is_none() && s.coeff.is_none() && !recovered {
            return;
        }
        let alpha: Vec<T> = s.params.iter().map(|b| T::of_bits(*b)).collect();
        match guarded(|| fresh::<T, F>(world, &alpha, false, false)) {
            Ok(Ok(fr)) => {
                // the reference is sequential; a state computed by the parallel flavour may differ
                // from it in the last bits (one-flavour refactoring), never beyond
                if agree_with_reference::<T>(world, &fr.snap, s, !cache_par) == Agree::No {
                    let class = if recovered && s.resid.is_none() && fr.snap.resid.is_some() {
                        "NO_RECOVERY"
                    } else {
                        "PRESENT_BUT_WRONG"
                    };
                    rep.violate(
                        sc,
                        class,
                        site,
                        format!("{site}: residuals/coefficients differ from those of a fresh fault-free problem at the parameters the problem reports"),
                    );
                }
            }
            Ok(Err(_)) => {}
            Err(p) => rep.violate(sc, "PANIC", &format!("fresh@{}", panic_site(&p)), p),
        }
    };
    if r.build.is_ok() {
        let bev = slice(&log, 0, r.build_events);
        if failing(bev) {
            poisoned = true;
            fault_seen_before = true;
            rep.probe("failure_during_build");
            if let Some(s) = &r.build_snap {
                if s.resid.is_some() || s.coeff.is_some() {
                    rep.violate(sc, "STALE_AFTER_FAILURE", "build", "the model failed during build(), yet the built problem exposes residuals/coefficients".into());
                }
            }
        } else if let Some(s) = &r.build_snap {
            check_present(rep, s, "build", false, &r.world, sc.parallel);
        }
    }
    let mut prev_snap = r.build_snap.clone();
    // flavour of the problem now, and flavour that computed the cache in effect
    let mut cur_par = sc.parallel;
    let mut cache_par = sc.parallel;
    for st in &r.steps {
        let op = &sc.ops[st.op];
        let name = op_name(op);
        if let Some(p) = &st.panic {
            rep.violate(sc, "PANIC", &format!("{}@{}", name, panic_site(p)), p.clone());
            break;
        }
        let Some(s) = &st.snap else { break };
        let evs = slice(&log, st.ev_from, st.ev_to);
        let fails = failing(evs);
        match op {
            Op::SetParams(_) => {
                if fails {
                    poisoned = true;
                    rep.probe("failure_during_caller_update");
                    if s.resid.is_some() || s.coeff.is_some() {
                        rep.violate(sc, "STALE_AFTER_FAILURE", "SetParams", format!("op {}: the model failed while parameters were applied, yet residuals/coefficients are exposed afterwards", st.op));
                    }
                } else {
                    poisoned = false;
                    cache_par = cur_par;
                    check_present(rep, s, "SetParams", fault_seen_before, &r.world, cache_par);
                    if fault_seen_before {
                        rep.probe("recovery_checked");
                    }
                }
            }
            Op::Jacobian => {
                if let Extra::Jac(j) = &st.extra {
                    if fails {
                        rep.probe("failure_during_jacobian");
                        if j.bits.is_some() {
                            rep.violate(sc, "PARTIAL_JACOBIAN", "Jacobian", format!("op {}: a partial derivative failed, yet jacobian() returned a matrix", st.op));
                        }
                        if prev_snap.as_ref() != Some(s) {
                            rep.violate(sc, "PRESENT_BUT_WRONG", "Jacobian/state", format!("op {}: a failed Jacobian changed residuals/coefficients", st.op));
                        }
                    } else if poisoned {
                        if j.bits.is_some() {
                            rep.violate(sc, "STALE_AFTER_FAILURE", "Jacobian", format!("op {}: Jacobian exposed although the last update failed", st.op));
                        }
                    } else if s.resid.is_some() && cache_par == st.par_after {
                        let alpha: Vec<T> = s.params.iter().map(|b| T::of_bits(*b)).collect();
                        let par = st.par_after;
                        if let Ok(Ok(fr)) = guarded(|| fresh::<T, F>(&r.world, &alpha, par, true)) {
                            if fr.jac.as_ref() != Some(j) {
                                rep.violate(sc, "PRESENT_BUT_WRONG", "Jacobian", format!("op {}: Jacobian differs from that of a fresh fault-free problem at the reported parameters", st.op));
                            }
                        }
                    }
                }
            }
            Op::Fit | Op::FitWithStatistics => {
                if let Extra::Fit(f) = &st.extra {
                    // what did the optimizer see? (tap twin)
                    let mut n_opt: Option<usize> = None;
                    if let Some((r2, l2)) = &tap_run {
                        if let Some(st2) = r2.steps.iter().find(|x| x.op == st.op) {
                            if let Extra::Tapped(t) = &st2.extra {
                                let k = t.ev_to - t.ev_from;
                                let a = slice(&log, st.ev_from, st.ev_from + k);
                                let b = slice(l2, t.ev_from, t.ev_to);
                                let same = st.ev_from == t.ev_from
                                    && a.len() == b.len()
                                    && a.iter().zip(b.iter()).all(|(x, y)| x == y)
                                    && t.termination == f.termination;
                                if same {
                                    n_opt = Some(k);
                                    in_fit_rules(sc, rep, &t.events, l2, st.op);
                                    let saw_none = t.events.iter().any(|e| {
                                        matches!(e.kind, TapKind::Residuals(None) | TapKind::Jacobian(None))
                                    });
                                    if saw_none {
                                        rep.probe("optimizer_received_none");
                                        if f.ok {
                                            rep.violate(sc, "FIT_OK_DESPITE_FAILURE", "Fit", format!("op {}: the optimizer received None from the problem, yet fit returned Ok({})", st.op, f.termination));
                                        }
                                    }
                                } else {
                                    if std::env::var("VPSIM_DEBUG_DIV").is_ok() {
                                        eprintln!("DIVERGENCE idx={} faults={:?} evfrom {} vs {} lens {} {} term {} vs {} evals {} vs {}", sc.index, sc.faults, st.ev_from, t.ev_from, a.len(), b.len(), f.termination, t.termination, f.evaluations, t.evaluations);
                                    }
                                    rep.probe("fit_tap_divergence");
                                }
                            }
                        }
                    }
                    if let Some(k) = n_opt {
                        let tail = slice(&log, st.ev_from + k, f.lib_ev_to.max(st.ev_from + k));
                        if f.with_stats && f.ok {
                            // Ok with statistics: they ran to completion and are the last
                            // calls of the operation (see c12.rs)
                            let sl = stats_len(sc).min(tail.len());
                            if failing(&tail[tail.len() - sl..]) {
                                rep.violate(sc, "STATS_OK_DESPITE_FAILURE", "FitWithStatistics", format!("op {}: the model failed while the statistics were computed, yet fit_with_statistics returned Ok", st.op));
                            }
                        }
                        if failing(tail) {
                            rep.probe("failure_after_optimizer_finished");
                        }
                        if failing(slice(&log, st.ev_from, st.ev_from + k)) {
                            rep.probe("failure_during_optimizer");
                        }
                    }
                    // the final state: absent or correct
                    poisoned = s.resid.is_none();
                    if let Extra::Fit(ff) = &st.extra {
                        if ff.evaluations > 1 {
                            cache_par = ff.was_parallel;
                        }
                    }
                    check_present(rep, s, "Fit/final-state", false, &r.world, cache_par);
                    if f.ok && f.coeffs.is_some() != s.coeff.is_some() {
                        rep.violate(sc, "PRESENT_BUT_WRONG", "Fit/coefficients", "FitResult and problem disagree on the presence of coefficients".into());
                    }
                    sig_parts.push(format!("fit:{}:{}", f.ok, f.termination.split('(').next().unwrap_or("")));
                }
            }
            _ => {
                if poisoned && (s.resid.is_some() || s.coeff.is_some()) {
                    rep.violate(sc, "STALE_AFTER_FAILURE", name, format!("op {}: values exposed although the last update failed", st.op));
                }
            }
        }
        if fails {
            fault_seen_before = true;
        }
        cur_par = st.par_after;
        prev_snap = Some(s.clone());
    }
    Exec::uninstall();
    let est = exec.stats();
    rep.probe_n("sched_joins", est.joins);
    rep.probe_n("sched_stolen", est.late + est.early + est.overlap);

    // signature: where the (first) fault landed and what came of it
    if any_fault_fired {
        let e = first_fault.unwrap();
        let op_at = r
            .steps
            .iter()
            .find(|st| (e.seq as usize) >= st.ev_from && (e.seq as usize) < st.ev_to)
            .map(|st| st.op);
        let ph = if (e.seq as usize) < r.build_events {
            "build"
        } else {
            phase_of(sc, op_at)
        };
        let persist = sc
            .faults
            .first()
            .map(|f| match f.persist {
                Persist::Once => "once",
                Persist::Forever => "forever",
                Persist::Burst(_) => "burst",
            })
            .unwrap_or("-");
        rep.signatures = vec![format!(
            "{:?}|{}|{}|{}|{}|{:?}|{}|{}",
            F::KIND,
            if sc.parallel { "par" } else { "seq" },
            e.kind.class(),
            ph,
            persist,
            e.fault.map(|f| match f {
                FaultAction::WrongLen(_) => "wronglen".to_string(),
                o => format!("{o:?}"),
            }),
            sc.faults.len(),
            sig_parts.join(",")
        )];
    }
    if sample {
        rep.sample = Some(serde_json::json!({
            "model": format!("{:?}", sc.model.funcs.iter().map(|f| (f.family, f.params.clone())).collect::<Vec<_>>()),
            "kind": format!("{:?}", sc.model.kind), "width": format!("{:?}", sc.width),
            "N": sc.n(), "S": sc.s(), "parallel": sc.parallel, "mrhs": sc.mrhs,
            "variant": sc.variant,
            "ops": sc.ops.iter().map(op_name).collect::<Vec<_>>(),
            "faults": sc.faults.iter().map(|f| format!("{:?}", f)).collect::<Vec<_>>(),
            "fault_free_call_sequence": log.iter().take(40).map(|e| format!("{:?}#{}", e.kind, e.nth)).collect::<Vec<_>>(),
            "model_calls": log.len(),
        }));
    }
    log
}

/// rule 1/2 inside a fit, from the tap twin: a failed update must hand None to the optimizer
fn in_fit_rules(sc: &Scenario, rep: &mut RunReport, tev: &[TapEvent], log: &[Event], op: usize) {
    let mut update_failed = false;
    for e in tev {
        let evs = slice(log, e.ev_from, e.ev_to);
        match &e.kind {
            TapKind::SetParams(_) => {
                update_failed = failing(evs);
            }
            TapKind::Residuals(r) => {
                if update_failed && r.is_some() {
                    rep.violate(sc, "STALE_AFTER_FAILURE", "Fit/residuals", format!("op {op}: inside the fit, the model failed during a parameter update, yet residuals() handed values to the optimizer"));
                }
            }
            TapKind::Jacobian(j) => {
                if (update_failed || failing(evs)) && j.is_some() {
                    let class = if update_failed { "STALE_AFTER_FAILURE" } else { "PARTIAL_JACOBIAN" };
                    rep.violate(sc, class, "Fit/jacobian", format!("op {op}: inside the fit, jacobian() handed a matrix to the optimizer although the model had failed"));
                }
            }
            TapKind::Params(_) => {}
        }
    }
}
