//! C02 — residuals, best fit, weighted data and coefficients describe one single state.

use super::common::*;
use crate::ctl::Ctl;
use crate::executor::Exec;
use crate::gen::*;
use crate::prng::{mix, Rng};
use crate::refmath::{self, M64};
use crate::report::{panic_site, RunReport};
use crate::run::*;
use crate::sc::{hash_bits, Sc};
use crate::spec::*;
use nalgebra::DMatrix;
use std::sync::Arc;

pub fn generate(seed: u64, index: u64, thorough: bool) -> Scenario {
    let mut rng = Rng::new(mix(seed, "C02", index));
    let kind = if rng.chance(0.3) {
        ModelKind::Builder
    } else {
        ModelKind::Hand
    };
    let sizes = pick_sizes(&mut rng, thorough, if thorough { 0.35 } else { 0.2 });
    let parallel = rng.chance(0.25);
    let start = *rng.pick(&[Start::Near, Start::Mid, Start::Far]);
    let noise = *rng.pick(&[1e-3, 5e-2, 0.3, 0.3, 0.0]);
    let (mut sc, d) = base_scenario(&mut rng, "C02", seed, index, kind, sizes, parallel, start, noise);
    // non-trivial weights are the point here: re-draw "none"/"ones" most of the time
    if sc.weights.is_none() && rng.chance(0.7) {
        let wk = *rng.pick(&[WeightKind::Mild, WeightKind::Wide, WeightKind::WithNegatives, WeightKind::WithZeros, WeightKind::Constant]);
        sc.weights = gen_weights(&mut rng, wk, sc.n(), sc.width).map(|w| fxs(&w));
    }
    sc.opt.patience = sc.opt.patience.min(25);
    let max_ops = if rng.chance(0.2) { 20 } else { 8 };
    let allow_extreme = rng.chance(0.3);
    sc.ops = gen_script(
        &mut rng,
        &sc,
        &d,
        ScriptCfg {
            min_ops: 2,
            max_ops,
            allow_extreme,
            p_fit: 0.10,
            allow_clone: false,
            allow_into_seq: true,
            allow_band: false,
        },
    );
    if !sc.ops.iter().any(|o| matches!(o, Op::WeightedData)) && rng.chance(0.5) {
        sc.ops.push(Op::WeightedData);
    }
    if !sc.ops.iter().any(|o| matches!(o, Op::Fit | Op::FitWithStatistics)) && rng.chance(0.5) {
        sc.ops.push(if sc.mrhs || rng.chance(0.5) { Op::Fit } else { Op::FitWithStatistics });
    }
    // a failed update between two good ones is the interesting case
    if kind == ModelKind::Hand && rng.chance(0.4) {
        let nf = rng.usize_in(1, 2);
        for _ in 0..nf {
            let on_set = rng.chance(0.6);
            sc.faults.push(FaultRule {
                trigger: Trigger::Kind(
                    if on_set { CallKind::SetParams } else { CallKind::Eval },
                    rng.below(8) as u32,
                ),
                action: if on_set && rng.chance(0.4) {
                    FaultAction::FailAfterMutate
                } else {
                    FaultAction::Fail
                },
                persist: Persist::Once,
            });
        }
    }
    add_zero_sign_pairs(&mut sc, &mut Rng::new(mix(seed, "C02-zero-sign", index)));
    // the FitResult is kept after a fit: update the problem inside it and ask the result's
    // accessors again (own PRNG stream: the rest of the scenario stays as it was)
    let mut r2 = Rng::new(mix(seed, "C02-result-view", index));
    if let Some(i) = sc.ops.iter().position(|o| matches!(o, Op::Fit | Op::FitWithStatistics)) {
        if r2.chance(0.4) {
            let mut tail = vec![];
            if r2.chance(0.3) {
                tail.push(Op::ResultView);
            }
            let k = r2.usize_in(1, 2);
            for _ in 0..k {
                let base = if r2.chance(0.5) { &d.alpha_true } else { &d.alpha0 };
                let a = gen_alpha_update(&mut r2, base, &[d.alpha0.clone()], sc.width, false);
                tail.push(Op::SetParams(fxs(&a)));
                tail.push(Op::ResultView);
            }
            for (j, o) in tail.into_iter().enumerate() {
                sc.ops.insert(i + 1 + j, o);
            }
        }
    }
    sc
}

pub fn execute(sc: &Scenario) -> RunReport {
    crate::props::dispatch!(sc, exec_t)
}

fn to_t<T: Sc>(bits: &[u64]) -> Vec<T> {
    bits.iter().map(|b| T::of_bits(*b)).collect()
}

/// |a-b| <= 1 ulp-ish in T (relative 2u), or both exactly equal / same NaN-ness
fn close1<T: Sc>(a: T, b: T) -> bool {
    if a.bits() == b.bits() {
        return true;
    }
    let (x, y) = (a.f(), b.f());
    if x.is_nan() && y.is_nan() {
        return true;
    }
    (x - y).abs() <= 2.5 * T::u() * x.abs().max(y.abs())
}

/// the residual identity r = vec(Yw − (W∘Φ(α))·C) at the α the problem reports.
/// Returns Err(description) on violation, Ok(true) if checked, Ok(false) if gated out.
pub fn residual_identity<T: Sc>(
    w: &World<T>,
    params: &[T],
    resid: &[T],
    coeff: &[T],
    coeff_shape: (usize, usize),
) -> Result<bool, String> {
    let (n, s, m) = (w.n(), w.s(), w.m());
    if resid.len() != n * s {
        return Err(format!("residual vector has {} entries, expected N*S = {}", resid.len(), n * s));
    }
    if coeff_shape != (m, s) {
        return Err(format!("coefficient matrix is {:?}, expected ({m}, {s})", coeff_shape));
    }
    let phi = refmath::phi::<T>(&w.spec, &w.x, params);
    let mut phiw = phi;
    if let Some(wt) = &w.w {
        for j in 0..m {
            for i in 0..n {
                phiw[(i, j)] = wt[i] * phiw[(i, j)];
            }
        }
    }
    let yw = w.weighted_y();
    let pw = M64::from_t(&phiw);
    let y64 = M64::from_t(&yw);
    let c64 = M64 {
        r: m,
        c: s,
        d: coeff.iter().map(|v| v.f()).collect(),
    };
    if pw.all_finite() == false && y64.all_finite() && c64.all_finite() {
        // The basis is not finite at the reported α. Residuals computed *for that α* cannot
        // be finite in a row where a non-finite basis value meets a non-zero coefficient.
        for col in 0..s {
            for i in 0..n {
                let hit = (0..m).any(|j| !pw.at(i, j).is_finite() && c64.at(j, col) != 0.0);
                if hit && resid[col * n + i].f().is_finite() {
                    return Err(format!(
                        "residual[{}] = {:e} is finite although the weighted basis matrix at the reported parameters is not finite in row {i}: the residuals were not computed for the reported parameters",
                        col * n + i,
                        resid[col * n + i].f()
                    ));
                }
            }
        }
        return Ok(false);
    }
    if !pw.all_finite() || !y64.all_finite() || !c64.all_finite() {
        return Ok(false);
    }
    let pc = pw.mul(&c64);
    let apc = pw.abs_mul(&c64);
    let gamma = 8.0 * (m as f64 + 2.0) * T::u();
    for col in 0..s {
        for i in 0..n {
            let pred = y64.at(i, col) - pc.at(i, col);
            let bound = gamma * (y64.at(i, col).abs() + apc.at(i, col)) + 4.0 * (m as f64 + 2.0) * T::tiny();
            let got = resid[col * n + i].f();
            if !got.is_finite() || !pred.is_finite() {
                return Ok(false);
            }
            if (got - pred).abs() > bound {
                return Err(format!(
                    "residual[{}] (row {i}, rhs {col}) = {got:e}, but W(y - Phi(alpha) c) = {pred:e} (allowed deviation {bound:e})",
                    col * n + i
                ));
            }
        }
    }
    Ok(true)
}

fn exec_t<T: Sc, F: Factory<T>>(sc: &Scenario) -> RunReport {
    let mut rep = RunReport::default();
    rep.executions = 1;
    crate::ctl::set_current(sc);
    let exec = Exec::new(&sc.sched);
    exec.install();
    let ctl = Arc::new(Ctl::new(sc.faults.clone()));
    let mut r = Runner::<T, F>::start(sc, ctl.clone());
    r.run_ops(&sc.ops);
    let log = ctl.log();
    rep.events = ctl.seq();
    if let Some(p) = &r.build_panic {
        rep.violate(sc, "PANIC", &format!("build@{}", panic_site(p)), p.clone());
    }
    expect_built(sc, &mut rep, &r.build, r.build_panic.is_some(), "");
    let w = &r.world;
    let (n, s) = (w.n(), w.s());
    let yw = w.weighted_y();
    let nontrivial_weights = w
        .w
        .as_ref()
        .map(|v| v.iter().any(|x| x.f() != 1.0))
        .unwrap_or(false);
    let mut checked = 0u64;
    let mut nonzero_resid = false;
    let mut sig: Vec<String> = vec![];

    let mut expected_params: Vec<u64> = w.alpha0.iter().map(|v| v.bits()).collect();
    let check_state = |rep: &mut RunReport, sn: &Snap, site: &str, checked: &mut u64, nonzero: &mut bool| {
        rep.eat_bits(&sn.params);
        if let (Some(rb), Some(cb)) = (&sn.resid, &sn.coeff) {
            rep.eat_bits(rb);
            let params: Vec<T> = to_t(&sn.params);
            let resid: Vec<T> = to_t(rb);
            let coeff: Vec<T> = to_t(cb);
            match residual_identity(w, &params, &resid, &coeff, sn.coeff_shape) {
                Ok(true) => {
                    *checked += 1;
                    let rn: f64 = resid.iter().map(|v| v.f() * v.f()).sum::<f64>().sqrt();
                    let yn: f64 = yw.iter().map(|v| v.f() * v.f()).sum::<f64>().sqrt();
                    if rn > 1e-6 * yn && rn > 0.0 {
                        *nonzero = true;
                    }
                }
                Ok(false) => rep.probe("gated_out_nonfinite"),
                Err(e) => {
                    let class = if e.starts_with("residual vector") || e.starts_with("coefficient matrix") {
                        "SHAPE_MISMATCH"
                    } else {
                        "RESIDUAL_MISMATCH"
                    };
                    rep.violate(sc, class, site, format!("{site}: {e}"));
                }
            }
        } else if sn.resid.is_some() != sn.coeff.is_some() {
            rep.violate(sc, "SHAPE_MISMATCH", site, "residuals and coefficients are not present together".into());
        }
    };
    if let Some(sn) = &r.build_snap {
        check_state(&mut rep, sn, "build", &mut checked, &mut nonzero_resid);
        if sn.params != expected_params {
            rep.violate(sc, "PARAMS_MISMATCH", "build", "a freshly built problem does not report the model's initial parameters".into());
        }
    }
    for st in &r.steps {
        let op = &sc.ops[st.op];
        let name = op_name(op);
        if let Some(p) = &st.panic {
            rep.violate(sc, "PANIC", &format!("{}@{}", name, panic_site(p)), p.clone());
            break;
        }
        let Some(sn) = &st.snap else { break };
        let evs = &log[st.ev_from.min(log.len())..st.ev_to.min(log.len())];
        match op {
            Op::SetParams(a) => {
                let newp: Vec<u64> = a.iter().map(|v| T::of(v.0).bits()).collect();
                // which parameters did the model acknowledge? (read off the event log)
                let mut acknowledged = true;
                if F::KIND == ModelKind::Hand {
                    if let Some(e) = evs.iter().find(|e| e.kind == CallKind::SetParams) {
                        acknowledged = match e.fault {
                            None => true,
                            Some(FaultAction::FailAfterMutate) => true,
                            Some(_) => sc.model.store_then_fail,
                        };
                        debug_assert_eq!(e.alpha_hash, hash_bits(&newp));
                    }
                }
                if acknowledged {
                    expected_params = newp;
                }
                if sn.params != expected_params {
                    rep.violate(sc, "PARAMS_MISMATCH", "SetParams", format!("op {}: params() is not the last parameter vector the model acknowledged", st.op));
                }
                sig.push(format!("S{}", sn.resid.is_some() as u8));
            }
            Op::WeightedData => {
                if let Extra::WeightedData { bits, shape, vector_api } = &st.extra {
                    rep.eat_bits(bits);
                    if *shape != (n, s) || *vector_api == sc.mrhs {
                        rep.violate(sc, "SHAPE_MISMATCH", "WeightedData", format!("weighted data has shape {:?} (vector API: {}), expected ({n},{s}) for mrhs={}", shape, vector_api, sc.mrhs));
                    } else {
                        let got: Vec<T> = to_t(bits);
                        let mut bad = None;
                        for (k, (g, e)) in got.iter().zip(yw.iter()).enumerate() {
                            if !close1(*g, *e) {
                                bad = Some((k, g.f(), e.f()));
                                break;
                            }
                        }
                        if let Some((k, g, e)) = bad {
                            rep.violate(sc, "WEIGHTED_DATA_MISMATCH", "WeightedData", format!("weighted_data element {k} is {g:e}, but w*y as supplied is {e:e}"));
                        }
                        rep.probe("weighted_data_checked");
                    }
                    sig.push("W".into());
                }
            }
            Op::Fit | Op::FitWithStatistics => {
                if let Extra::Fit(f) = &st.extra {
                    expected_params = sn.params.clone();
                    if f.nl_params != sn.params {
                        rep.violate(sc, "PARAMS_MISMATCH", "Fit", "FitResult::nonlinear_parameters differs from the parameters of the returned problem".into());
                    }
                    let cb = f.coeffs.as_ref().map(|c| crate::sc::mat_bits(c));
                    if cb != sn.coeff {
                        rep.violate(sc, "BEST_FIT_MISMATCH", "Fit/coefficients", "FitResult::linear_coefficients differs from the coefficients of the returned problem".into());
                    }
                    let fit_faulted = evs.iter().any(|e| e.fault.is_some());
                    match (&f.best_fit, &f.coeffs) {
                        (Some(bf), Some(c)) => {
                            if bf.shape() != (n, s) || f.best_fit_is_vector == sc.mrhs {
                                rep.violate(sc, "SHAPE_MISMATCH", "Fit/best_fit", format!("best_fit has shape {:?}, expected ({n},{s})", bf.shape()));
                            } else {
                                let params: Vec<T> = to_t(&f.nl_params);
                                match best_fit_identity(w, &params, bf, c) {
                                    Ok(true) => rep.probe("best_fit_checked"),
                                    Ok(false) => rep.probe("gated_out_nonfinite"),
                                    Err(e) => rep.violate(sc, "BEST_FIT_MISMATCH", "Fit/best_fit", e),
                                }
                            }
                        }
                        (None, Some(_)) if !fit_faulted => {
                            // the model evaluates (no fault planned): a best fit must exist
                            let params: Vec<T> = to_t(&f.nl_params);
                            let phi = refmath::phi::<T>(&w.spec, &w.x, &params);
                            if phi.iter().all(|v| v.f().is_finite()) {
                                rep.violate(sc, "BEST_FIT_MISMATCH", "Fit/best_fit", "coefficients are present and the model evaluates, yet best_fit() is None".into());
                            }
                        }
                        _ => {}
                    }
                    sig.push(format!("F{}", f.ok as u8));
                }
            }
            Op::ResultView => {
                // the result's accessors, asked again later: they must describe the state the
                // problem inside the result is in NOW (parameters, coefficients and best fit
                // belong together)
                if let Extra::ResultView { nl_params, coeffs, best_fit, best_fit_is_vector } = &st.extra {
                    rep.probe("result_views");
                    if nl_params != &sn.params {
                        rep.violate(sc, "PARAMS_MISMATCH", "ResultView", "FitResult::nonlinear_parameters differs from the parameters of the problem inside the result".into());
                    }
                    let cb = coeffs.as_ref().map(|c| crate::sc::mat_bits(c));
                    if cb != sn.coeff {
                        rep.violate(sc, "BEST_FIT_MISMATCH", "ResultView/coefficients", "FitResult::linear_coefficients differs from the coefficients of the problem inside the result".into());
                    }
                    let faulted_before = log[..st.ev_to.min(log.len())].iter().any(|e| e.fault.is_some());
                    match (best_fit, coeffs) {
                        (Some(bf), Some(c)) => {
                            if bf.shape() != (n, s) || *best_fit_is_vector == sc.mrhs {
                                rep.violate(sc, "SHAPE_MISMATCH", "ResultView/best_fit", format!("best_fit has shape {:?}, expected ({n},{s})", bf.shape()));
                            } else {
                                let params: Vec<T> = to_t(nl_params);
                                match best_fit_identity(w, &params, bf, c) {
                                    Ok(true) => rep.probe("best_fit_checked_after_update"),
                                    Ok(false) => rep.probe("gated_out_nonfinite"),
                                    Err(e) => rep.violate(sc, "BEST_FIT_MISMATCH", "ResultView/best_fit", e),
                                }
                            }
                        }
                        (Some(_), None) => {
                            rep.violate(sc, "BEST_FIT_MISMATCH", "ResultView/best_fit", "best_fit() returns values although the result exposes no coefficients".into());
                        }
                        (None, Some(_)) if !faulted_before => {
                            let params: Vec<T> = to_t(nl_params);
                            let phi = refmath::phi::<T>(&w.spec, &w.x, &params);
                            if phi.iter().all(|v| v.f().is_finite()) {
                                rep.violate(sc, "BEST_FIT_MISMATCH", "ResultView/best_fit", "coefficients are present and the model evaluates, yet best_fit() is None".into());
                            }
                        }
                        _ => {}
                    }
                }
            }
            _ => {}
        }
        check_state(&mut rep, sn, name, &mut checked, &mut nonzero_resid);
    }
    Exec::uninstall();
    rep.probe_n("residual_identities_checked", checked);
    rep.probe_n("faults_fired", ctl.fired());
    for e in &log {
        if e.fault.is_some() {
            rep.probe(&format!("fault_{}", e.kind.class()));
        }
    }
    if nontrivial_weights {
        rep.probe("runs_with_nontrivial_weights");
    }
    if checked > 0 && nontrivial_weights && nonzero_resid {
        rep.signatures = vec![format!(
            "{:?}|{:?}|{}|{}|S{}|M{}|{}",
            F::KIND,
            sc.width,
            sc.parallel,
            sc.mrhs,
            s,
            w.m(),
            sig.join("")
        )];
    }
    rep.sample = Some(serde_json::json!({
        "model": format!("{:?}", sc.model.funcs.iter().map(|f| (f.family, f.params.clone())).collect::<Vec<_>>()),
        "kind": format!("{:?}", sc.model.kind), "width": format!("{:?}", sc.width),
        "N": n, "S": s, "parallel": sc.parallel, "mrhs": sc.mrhs,
        "weights": sc.weights.as_ref().map(|w| w.iter().take(6).map(|v| v.0).collect::<Vec<_>>()),
        "ops": sc.ops.iter().map(op_name).collect::<Vec<_>>(),
        "faults": sc.faults.iter().map(|f| format!("{:?}", f)).collect::<Vec<_>>(),
        "residual_identities_checked": checked,
    }));
    rep
}

/// best_fit = Φ(α̂)·Ĉ (unweighted), element-wise within the forward error bound
pub fn best_fit_identity<T: Sc>(
    w: &World<T>,
    params: &[T],
    bf: &DMatrix<T>,
    c: &DMatrix<T>,
) -> Result<bool, String> {
    let phi = M64::from_t(&refmath::phi::<T>(&w.spec, &w.x, params));
    let c64 = M64::from_t(c);
    let b64 = M64::from_t(bf);
    if !phi.all_finite() || !c64.all_finite() || !b64.all_finite() {
        return Ok(false);
    }
    let pc = phi.mul(&c64);
    let apc = phi.abs_mul(&c64);
    let gamma = 8.0 * (w.m() as f64 + 2.0) * T::u();
    for col in 0..b64.c {
        for i in 0..b64.r {
            let d = (b64.at(i, col) - pc.at(i, col)).abs();
            let bound = gamma * apc.at(i, col) + 4.0 * (w.m() as f64 + 2.0) * T::tiny();
            if d > bound {
                return Err(format!(
                    "best_fit[{i},{col}] = {:e}, but Phi(alpha_hat)*C_hat = {:e} (allowed deviation {:e})",
                    b64.at(i, col),
                    pc.at(i, col),
                    bound
                ));
            }
        }
    }
    Ok(true)
}
