//! Scalar abstraction: everything in the simulator is generic over the two scalar widths
//! varpro supports (f32 / f64).

use nalgebra::{DMatrix, DVector, RealField};
use num_traits::{Float, FromPrimitive};
use varpro::statistics::numeric_traits::CastF64;

pub trait Sc:
    RealField
    + Float
    + FromPrimitive
    + CastF64
    + Copy
    + std::ops::Mul<Self, Output = Self>
    + Send
    + Sync
    + 'static
    + std::fmt::Debug
    + std::fmt::Display
{
    const NAME: &'static str;
    /// unit round-off
    fn u() -> f64;
    /// smallest positive subnormal (absolute rounding granularity near zero)
    fn tiny() -> f64;
    fn of(v: f64) -> Self;
    fn f(self) -> f64;
    /// bit pattern, widened to u64
    fn bits(self) -> u64;
    fn of_bits(b: u64) -> Self;
}

impl Sc for f64 {
    const NAME: &'static str = "f64";
    fn u() -> f64 {
        f64::EPSILON / 2.0
    }
    fn tiny() -> f64 {
        5e-324
    }
    #[inline]
    fn of(v: f64) -> Self {
        v
    }
    #[inline]
    fn f(self) -> f64 {
        self
    }
    #[inline]
    fn bits(self) -> u64 {
        self.to_bits()
    }
    fn of_bits(b: u64) -> Self {
        f64::from_bits(b)
    }
}

impl Sc for f32 {
    const NAME: &'static str = "f32";
    fn u() -> f64 {
        (f32::EPSILON / 2.0) as f64
    }
    fn tiny() -> f64 {
        1.5e-45
    }
    #[inline]
    fn of(v: f64) -> Self {
        v as f32
    }
    #[inline]
    fn f(self) -> f64 {
        self as f64
    }
    #[inline]
    fn bits(self) -> u64 {
        self.to_bits() as u64
    }
    fn of_bits(b: u64) -> Self {
        f32::from_bits(b as u32)
    }
}

pub fn vec_of<T: Sc>(v: &[f64]) -> DVector<T> {
    DVector::from_iterator(v.len(), v.iter().map(|x| T::of(*x)))
}

pub fn mat_bits<T: Sc>(m: &DMatrix<T>) -> Vec<u64> {
    m.iter().map(|x| x.bits()).collect()
}

pub fn vec_bits<T: Sc>(m: &DVector<T>) -> Vec<u64> {
    m.iter().map(|x| x.bits()).collect()
}

/// bitwise equality that treats every NaN payload as itself (no NaN == NaN special case:
/// the comparison is on raw bits, which is what "same code, same inputs" must reproduce)
pub fn bits_eq(a: &[u64], b: &[u64]) -> bool {
    a == b
}

/// FNV-1a over a bit vector; used for compact event logs and signatures
pub fn hash_bits(bits: &[u64]) -> u64 {
    let mut h: u64 = 0xcbf2_9ce4_8422_2325;
    for b in bits {
        for k in 0..8 {
            h ^= (b >> (8 * k)) & 0xff;
            h = h.wrapping_mul(0x0000_0100_0000_01B3);
        }
    }
    h
}

pub fn hash_str(s: &str) -> u64 {
    let mut h: u64 = 0xcbf2_9ce4_8422_2325;
    for b in s.bytes() {
        h ^= b as u64;
        h = h.wrapping_mul(0x0000_0100_0000_01B3);
    }
    h
}
