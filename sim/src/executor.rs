//! Simulated work-stealing pool (seam S3). Installed into the `rayon-core-sim` fork, it
//! decides for every `join` which of the outcomes a real pool can produce happens:
//! b not stolen / stolen-late / stolen-early / stolen-and-overlapped. rayon's iterator
//! layer and nalgebra's column producers run unmodified on top of it.

use crate::prng::Rng;
use crate::spec::{JoinOutcome, SchedSpec};
use rayon_core::sim::{Arm, SimExec};
use std::panic::{catch_unwind, resume_unwind, AssertUnwindSafe};
use std::sync::atomic::{AtomicUsize, Ordering};
use std::sync::{Arc, Mutex};

#[derive(Default, Clone, Debug)]
pub struct ExecStats {
    pub joins: u64,
    pub inline: u64,
    pub late: u64,
    pub early: u64,
    pub overlap: u64,
    /// per-join outcome codes in call order (the schedule actually taken)
    pub trace: Vec<u8>,
}

pub struct Exec {
    pool: usize,
    injected: bool,
    mix: [f64; 4],
    overlap: bool,
    rng: Mutex<Rng>,
    /// second stream for the simulated worker indices (keeps the join-outcome tape as it was)
    idx_rng: Mutex<Rng>,
    /// simulated worker index per execution context (the plain thread, or a shuttle task in
    /// overlap mode): a stack, one entry per nested arm
    workers: Mutex<Vec<(String, Vec<usize>)>>,
    depth: AtomicUsize,
    pub stats: Mutex<ExecStats>,
}

impl Exec {
    pub fn new(s: &SchedSpec) -> Arc<Self> {
        Arc::new(Exec {
            pool: s.pool.max(1),
            injected: s.injected,
            mix: [s.mix[0].0, s.mix[1].0, s.mix[2].0, s.mix[3].0],
            overlap: s.overlap,
            rng: Mutex::new(Rng::new(s.tape_seed)),
            idx_rng: Mutex::new(Rng::new(s.tape_seed ^ 0x1d0f_5eed_0a11_c0de)),
            workers: Mutex::new(vec![]),
            depth: AtomicUsize::new(0),
            stats: Mutex::new(ExecStats::default()),
        })
    }

    pub fn install(self: &Arc<Self>) {
        rayon_core::sim::install(Some(self.clone() as Arc<dyn SimExec>));
    }

    pub fn uninstall() {
        rayon_core::sim::install(None);
    }

    pub fn stats(&self) -> ExecStats {
        self.stats.lock().unwrap_or_else(|e| e.into_inner()).clone()
    }

    fn ctx_key() -> String {
        if crate::ctl::in_shuttle_thread() {
            format!("{:?}", shuttle::thread::current().id())
        } else {
            String::new()
        }
    }
    fn cur_worker(&self) -> Option<usize> {
        let key = Self::ctx_key();
        let g = self.workers.lock().unwrap_or_else(|e| e.into_inner());
        g.iter().find(|(k, _)| *k == key).and_then(|(_, st)| st.last().copied())
    }
    fn push_worker(&self, idx: usize) {
        let key = Self::ctx_key();
        let mut g = self.workers.lock().unwrap_or_else(|e| e.into_inner());
        match g.iter_mut().find(|(k, _)| *k == key) {
            Some((_, st)) => st.push(idx),
            None => g.push((key, vec![idx])),
        }
    }
    fn pop_worker(&self) {
        let key = Self::ctx_key();
        let mut g = self.workers.lock().unwrap_or_else(|e| e.into_inner());
        if let Some(pos) = g.iter().position(|(k, _)| *k == key) {
            g[pos].1.pop();
            if g[pos].1.is_empty() {
                g.remove(pos);
            }
        }
    }
    /// an *idle* worker (the thief): not `me` and not the worker any other execution context
    /// (overlapped shuttle task) is running on right now - in a real pool a worker index runs
    /// one task at a time, and code may rely on that (per-thread slots indexed by
    /// `current_thread_index`). None: every worker is busy, nobody can steal.
    fn idle_worker(&self, me: usize) -> Option<usize> {
        let busy: Vec<usize> = {
            let g = self.workers.lock().unwrap_or_else(|e| e.into_inner());
            g.iter().filter_map(|(_, st)| st.last().copied()).collect()
        };
        let free: Vec<usize> = (0..self.pool).filter(|i| *i != me && !busy.contains(i)).collect();
        if free.is_empty() {
            return None;
        }
        let mut g = self.idx_rng.lock().unwrap_or_else(|e| e.into_inner());
        Some(free[g.below(free.len() as u64) as usize])
    }

    fn draw(&self) -> JoinOutcome {
        if self.pool == 1 {
            // a single worker has nobody to steal from it
            return JoinOutcome::Inline;
        }
        let mut g = self.rng.lock().unwrap_or_else(|e| e.into_inner());
        let o = match g.weighted(&self.mix) {
            0 => JoinOutcome::Inline,
            1 => JoinOutcome::StolenLate,
            2 => JoinOutcome::StolenEarly,
            _ => JoinOutcome::Overlap,
        };
        if o == JoinOutcome::Overlap && !(self.overlap && crate::ctl::in_shuttle_thread()) {
            // without the shuttle runtime an overlapped steal degenerates to one of the
            // two sequentialised steals
            if g.chance(0.5) {
                JoinOutcome::StolenLate
            } else {
                JoinOutcome::StolenEarly
            }
        } else {
            o
        }
    }
}

/// run both arms in the given order; a panic in the first still lets the second run
/// (rayon's contract), then the first panic is re-raised
fn run_two(first: &mut (dyn FnMut(bool) + Send), f_ctx: bool, second: &mut (dyn FnMut(bool) + Send), s_ctx: bool) {
    let r1 = catch_unwind(AssertUnwindSafe(|| first(f_ctx)));
    let r2 = catch_unwind(AssertUnwindSafe(|| second(s_ctx)));
    if let Err(e) = r1 {
        resume_unwind(e);
    }
    if let Err(e) = r2 {
        resume_unwind(e);
    }
}

impl SimExec for Exec {
    fn num_threads(&self) -> usize {
        self.pool
    }

    fn thread_index(&self) -> Option<usize> {
        self.cur_worker()
    }

    fn join(&self, a: Arm<'_>, b: Arm<'_>) {
        let top = self.depth.fetch_add(1, Ordering::SeqCst) == 0;
        let inj = top && self.injected;
        let outcome = self.draw();
        struct Dec<'a>(&'a AtomicUsize);
        impl Drop for Dec<'_> {
            fn drop(&mut self) {
                self.0.fetch_sub(1, Ordering::SeqCst);
            }
        }
        let _dec = Dec(&self.depth);
        // simulated worker identities: the code that called join runs on worker `me` (drawn when
        // this context enters its first join), an arm that is not stolen stays on `me`, a stolen
        // arm runs on another worker
        let fresh_ctx = self.cur_worker().is_none();
        let me = match self.cur_worker() {
            Some(w) => w,
            None => {
                let w = self.idx_rng.lock().unwrap_or_else(|e| e.into_inner()).below(self.pool as u64) as usize;
                self.push_worker(w);
                w
            }
        };
        struct PopCtx<'a>(&'a Exec, bool);
        impl Drop for PopCtx<'_> {
            fn drop(&mut self) {
                if self.1 {
                    self.0.pop_worker();
                }
            }
        }
        let _pop = PopCtx(self, fresh_ctx);
        let (outcome, thief) = if outcome == JoinOutcome::Inline {
            (outcome, me)
        } else {
            match self.idle_worker(me) {
                Some(t) => (outcome, t),
                // no idle worker: the arm is not stolen after all
                None => (JoinOutcome::Inline, me),
            }
        };
        {
            let mut st = self.stats.lock().unwrap_or_else(|e| e.into_inner());
            st.joins += 1;
            match outcome {
                JoinOutcome::Inline => st.inline += 1,
                JoinOutcome::StolenLate => st.late += 1,
                JoinOutcome::StolenEarly => st.early += 1,
                JoinOutcome::Overlap => st.overlap += 1,
            }
            if st.trace.len() < 4096 {
                st.trace.push(outcome as u8);
            }
        }
        let this: &Exec = self;
        let mut b_on = |ctx: bool| {
            this.push_worker(thief);
            struct P<'a>(&'a Exec);
            impl Drop for P<'_> {
                fn drop(&mut self) {
                    self.0.pop_worker();
                }
            }
            let _p = P(this);
            b(ctx)
        };
        let b: Arm<'_> = &mut b_on;
        match outcome {
            JoinOutcome::Inline => run_two(a, inj, b, inj),
            JoinOutcome::StolenLate => run_two(a, inj, b, true),
            JoinOutcome::StolenEarly => run_two(b, true, a, inj),
            JoinOutcome::Overlap => {
                // shuttle 0.9.3's *scoped* threads cannot be nested (a finishing scoped thread
                // wakes its scope's main task even when that task waits in an inner scope,
                // which then returns early). Use a plain spawned thread with the borrow's
                // lifetime erased instead; soundness rests on the unconditional join below:
                // this frame does not return (or unwind) before arm b has finished.
                let b_static: &'static mut (dyn FnMut(bool) + Send) =
                    unsafe { std::mem::transmute::<Arm<'_>, &'static mut (dyn FnMut(bool) + Send)>(b) };
                let h = shuttle::thread::spawn(move || {
                    catch_unwind(AssertUnwindSafe(|| b_static(true))).err()
                });
                let pa = catch_unwind(AssertUnwindSafe(|| a(inj))).err();
                let pb = match h.join() {
                    Ok(r) => r,
                    Err(e) => Some(e),
                };
                if let Some(e) = pa {
                    resume_unwind(e);
                }
                if let Some(e) = pb {
                    resume_unwind(e);
                }
            }
        }
    }
}
