//! Pure reference mathematics of the simulated models: basis functions, their partial
//! derivatives and the assembled matrices. Used by the simulated models (the environment)
//! and, independently of any model *instance*, by the oracles.

use crate::sc::Sc;
use crate::spec::{Family, ModelSpec};
use nalgebra::{DMatrix, DVector};
use num_traits::Float;

#[inline]
pub fn f_eval<T: Sc>(fam: Family, x: T, p: &[T]) -> T {
    let one = T::of(1.0);
    match fam {
        Family::ExpTau => Float::exp(-x / p[0]),
        Family::ExpRate => Float::exp(-p[0] * x),
        Family::Gauss => {
            let d = x - p[0];
            Float::exp(-(d * d) / (T::of(2.0) * p[1] * p[1]))
        }
        Family::DampCos => Float::exp(-p[0] * x) * Float::cos(p[1] * x),
        Family::DampSin => Float::exp(-p[0] * x) * Float::sin(p[1] * x),
        Family::Rational => one / (one + p[0] * x),
        Family::PhaseCos => Float::exp(-p[0] * x) * Float::cos(p[1] * x + p[2]),
        Family::Cubic4 => p[0] + p[1] * x + p[2] * x * x + p[3] * x * x * x,
        Family::ExpQuad5 => Float::exp(-(p[0] + p[1] * x)) * (p[2] + p[3] * x + p[4] * x * x),
        Family::Const => one,
        Family::Linear => x,
        Family::TanhStep => Float::tanh((x - p[0]) / p[1]),
    }
}

/// derivative of the family function with respect to its own parameter `l`
#[inline]
pub fn f_deriv<T: Sc>(fam: Family, x: T, p: &[T], l: usize) -> T {
    let one = T::of(1.0);
    match (fam, l) {
        (Family::ExpTau, 0) => Float::exp(-x / p[0]) * x / (p[0] * p[0]),
        (Family::ExpRate, 0) => -x * Float::exp(-p[0] * x),
        (Family::Gauss, 0) => {
            let d = x - p[0];
            Float::exp(-(d * d) / (T::of(2.0) * p[1] * p[1])) * d / (p[1] * p[1])
        }
        (Family::Gauss, 1) => {
            let d = x - p[0];
            Float::exp(-(d * d) / (T::of(2.0) * p[1] * p[1])) * d * d / (p[1] * p[1] * p[1])
        }
        (Family::DampCos, 0) => -x * Float::exp(-p[0] * x) * Float::cos(p[1] * x),
        (Family::DampCos, 1) => -x * Float::exp(-p[0] * x) * Float::sin(p[1] * x),
        (Family::DampSin, 0) => -x * Float::exp(-p[0] * x) * Float::sin(p[1] * x),
        (Family::DampSin, 1) => x * Float::exp(-p[0] * x) * Float::cos(p[1] * x),
        (Family::Rational, 0) => {
            let d = one + p[0] * x;
            -x / (d * d)
        }
        (Family::PhaseCos, 0) => -x * Float::exp(-p[0] * x) * Float::cos(p[1] * x + p[2]),
        (Family::PhaseCos, 1) => -x * Float::exp(-p[0] * x) * Float::sin(p[1] * x + p[2]),
        (Family::PhaseCos, 2) => -Float::exp(-p[0] * x) * Float::sin(p[1] * x + p[2]),
        (Family::Cubic4, 0) => one,
        (Family::Cubic4, 1) => x,
        (Family::Cubic4, 2) => x * x,
        (Family::Cubic4, 3) => x * x * x,
        (Family::ExpQuad5, 0) => -Float::exp(-(p[0] + p[1] * x)) * (p[2] + p[3] * x + p[4] * x * x),
        (Family::ExpQuad5, 1) => {
            -x * Float::exp(-(p[0] + p[1] * x)) * (p[2] + p[3] * x + p[4] * x * x)
        }
        (Family::ExpQuad5, 2) => Float::exp(-(p[0] + p[1] * x)),
        (Family::ExpQuad5, 3) => x * Float::exp(-(p[0] + p[1] * x)),
        (Family::ExpQuad5, 4) => x * x * Float::exp(-(p[0] + p[1] * x)),
        (Family::TanhStep, 0) => {
            let t = Float::tanh((x - p[0]) / p[1]);
            -(one - t * t) / p[1]
        }
        (Family::TanhStep, 1) => {
            let t = Float::tanh((x - p[0]) / p[1]);
            -(one - t * t) * (x - p[0]) / (p[1] * p[1])
        }
        _ => T::of(0.0),
    }
}

/// column j of Phi: basis function j at all x for the model parameter vector alpha
pub fn column<T: Sc>(spec: &ModelSpec, j: usize, x: &DVector<T>, alpha: &[T]) -> DVector<T> {
    let f = &spec.funcs[j];
    let p: Vec<T> = f.params.iter().map(|i| alpha[*i]).collect();
    DVector::from_iterator(x.len(), x.iter().map(|xi| f_eval(f.family, *xi, &p)))
}

/// column j of dPhi/d alpha_k (zero if function j does not depend on alpha_k)
pub fn dcolumn<T: Sc>(
    spec: &ModelSpec,
    j: usize,
    k: usize,
    x: &DVector<T>,
    alpha: &[T],
) -> DVector<T> {
    let f = &spec.funcs[j];
    match f.params.iter().position(|i| *i == k) {
        None => DVector::from_element(x.len(), T::of(0.0)),
        Some(l) => {
            let p: Vec<T> = f.params.iter().map(|i| alpha[*i]).collect();
            DVector::from_iterator(x.len(), x.iter().map(|xi| f_deriv(f.family, *xi, &p, l)))
        }
    }
}

pub fn phi<T: Sc>(spec: &ModelSpec, x: &DVector<T>, alpha: &[T]) -> DMatrix<T> {
    let mut m = DMatrix::from_element(x.len(), spec.m(), T::of(0.0));
    for j in 0..spec.m() {
        m.set_column(j, &column(spec, j, x, alpha));
    }
    m
}

pub fn dphi<T: Sc>(spec: &ModelSpec, k: usize, x: &DVector<T>, alpha: &[T]) -> DMatrix<T> {
    let mut m = DMatrix::from_element(x.len(), spec.m(), T::of(0.0));
    for j in 0..spec.m() {
        m.set_column(j, &dcolumn(spec, j, k, x, alpha));
    }
    m
}

// ---------------------------------------------------------------------------------------
// independent f64 linear algebra for the toleranced oracles (no nalgebra decompositions)
// ---------------------------------------------------------------------------------------

/// Plain dense f64 matrix, column major, for reference computations.
#[derive(Clone, Debug)]
pub struct M64 {
    pub r: usize,
    pub c: usize,
    pub d: Vec<f64>,
}

impl M64 {
    pub fn zeros(r: usize, c: usize) -> Self {
        M64 {
            r,
            c,
            d: vec![0.0; r * c],
        }
    }
    pub fn from_t<T: Sc>(m: &DMatrix<T>) -> Self {
        M64 {
            r: m.nrows(),
            c: m.ncols(),
            d: m.iter().map(|v| v.f()).collect(),
        }
    }
    #[inline]
    pub fn at(&self, i: usize, j: usize) -> f64 {
        self.d[j * self.r + i]
    }
    #[inline]
    pub fn set(&mut self, i: usize, j: usize, v: f64) {
        self.d[j * self.r + i] = v;
    }
    pub fn col(&self, j: usize) -> &[f64] {
        &self.d[j * self.r..(j + 1) * self.r]
    }
    pub fn mul(&self, o: &M64) -> M64 {
        assert_eq!(self.c, o.r);
        let mut out = M64::zeros(self.r, o.c);
        for j in 0..o.c {
            for k in 0..self.c {
                let b = o.at(k, j);
                if b == 0.0 {
                    continue;
                }
                for i in 0..self.r {
                    out.d[j * self.r + i] += self.at(i, k) * b;
                }
            }
        }
        out
    }
    /// |A|·|B|
    pub fn abs_mul(&self, o: &M64) -> M64 {
        let a = M64 {
            r: self.r,
            c: self.c,
            d: self.d.iter().map(|v| v.abs()).collect(),
        };
        let b = M64 {
            r: o.r,
            c: o.c,
            d: o.d.iter().map(|v| v.abs()).collect(),
        };
        a.mul(&b)
    }
    pub fn all_finite(&self) -> bool {
        self.d.iter().all(|v| v.is_finite())
    }
    pub fn fro(&self) -> f64 {
        self.d.iter().map(|v| v * v).sum::<f64>().sqrt()
    }
}

/// Singular values of A (r >= 1, c >= 1) by one-sided Jacobi on a copy; returns them in
/// descending order. Independent of nalgebra. Returns None if A is not finite.
pub fn singular_values(a: &M64) -> Option<Vec<f64>> {
    if !a.all_finite() {
        return None;
    }
    // work on columns; if c > r use the transpose
    let (r, c, mut w) = if a.c <= a.r {
        (a.r, a.c, a.d.clone())
    } else {
        let mut t = vec![0.0; a.r * a.c];
        for i in 0..a.r {
            for j in 0..a.c {
                t[i * a.c + j] = a.at(i, j);
            }
        }
        (a.c, a.r, t)
    };
    // scale to avoid overflow in dot products
    let mx = w.iter().fold(0.0f64, |m, v| m.max(v.abs()));
    if mx == 0.0 {
        return Some(vec![0.0; c]);
    }
    for v in w.iter_mut() {
        *v /= mx;
    }
    for _sweep in 0..60 {
        let mut rotated = false;
        for p in 0..c {
            for q in (p + 1)..c {
                let (mut app, mut aqq, mut apq) = (0.0, 0.0, 0.0);
                for i in 0..r {
                    let x = w[p * r + i];
                    let y = w[q * r + i];
                    app += x * x;
                    aqq += y * y;
                    apq += x * y;
                }
                if apq.abs() <= 1e-15 * (app * aqq).sqrt() || apq == 0.0 {
                    continue;
                }
                rotated = true;
                let zeta = (aqq - app) / (2.0 * apq);
                let t = zeta.signum() / (zeta.abs() + (1.0 + zeta * zeta).sqrt());
                let t = if zeta == 0.0 { 1.0 } else { t };
                let cs = 1.0 / (1.0 + t * t).sqrt();
                let sn = cs * t;
                for i in 0..r {
                    let x = w[p * r + i];
                    let y = w[q * r + i];
                    w[p * r + i] = cs * x - sn * y;
                    w[q * r + i] = sn * x + cs * y;
                }
            }
        }
        if !rotated {
            break;
        }
    }
    let mut sv: Vec<f64> = (0..c)
        .map(|p| (0..r).map(|i| w[p * r + i] * w[p * r + i]).sum::<f64>().sqrt() * mx)
        .collect();
    sv.sort_by(|a, b| b.partial_cmp(a).unwrap());
    Some(sv)
}

/// Least-squares solution of min ||A c - b|| for full-column-rank A via modified
/// Gram-Schmidt QR with re-orthogonalisation, in f64. Returns None if rank deficient
/// (relative diagonal below `rtol`).
pub fn lstsq(a: &M64, b: &M64, rtol: f64) -> Option<M64> {
    let (n, m) = (a.r, a.c);
    if n < m || !a.all_finite() || !b.all_finite() {
        return None;
    }
    let mut q = a.clone();
    let mut rr = M64::zeros(m, m);
    let mut maxdiag: f64 = 0.0;
    for j in 0..m {
        for _pass in 0..2 {
            for k in 0..j {
                let mut dot = 0.0;
                for i in 0..n {
                    dot += q.at(i, k) * q.at(i, j);
                }
                rr.set(k, j, rr.at(k, j) + dot);
                for i in 0..n {
                    let v = q.at(i, j) - dot * q.at(i, k);
                    q.set(i, j, v);
                }
            }
        }
        let nrm = (0..n).map(|i| q.at(i, j) * q.at(i, j)).sum::<f64>().sqrt();
        rr.set(j, j, nrm);
        maxdiag = maxdiag.max(nrm);
        if nrm == 0.0 || !nrm.is_finite() {
            return None;
        }
        for i in 0..n {
            let v = q.at(i, j) / nrm;
            q.set(i, j, v);
        }
    }
    for j in 0..m {
        if rr.at(j, j) <= rtol * maxdiag {
            return None;
        }
    }
    let mut c = M64::zeros(m, b.c);
    for s in 0..b.c {
        // Q^T b
        let mut qtb = vec![0.0; m];
        for j in 0..m {
            for i in 0..n {
                qtb[j] += q.at(i, j) * b.at(i, s);
            }
        }
        for j in (0..m).rev() {
            let mut v = qtb[j];
            for k in (j + 1)..m {
                v -= rr.at(j, k) * c.at(k, s);
            }
            c.set(j, s, v / rr.at(j, j));
        }
    }
    Some(c)
}

// ---------------------------------------------------------------------------------------
// diagnosis of a third-party defect (nalgebra 0.33.3 SVD)
// ---------------------------------------------------------------------------------------

/// Relative reconstruction error ||U S V^T - A||_F / ||A||_F of the decomposition the library
/// under test uses (`Matrix::svd(true, true)` of nalgebra). For a correct SVD this is a small
/// multiple of the unit round-off. Returns None for non-finite input or singular values.
pub fn svd_reconstruction_error<T: Sc>(a: &DMatrix<T>) -> Option<f64> {
    if a.is_empty() || !a.iter().all(|v| v.f().is_finite()) {
        return None;
    }
    let eps = <T as num_traits::Float>::epsilon() * T::of(5.0);
    let svd = nalgebra::SVD::try_new_unordered(a.clone(), true, true, eps, 10_000)?;
    if !svd.singular_values.iter().all(|s| s.f().is_finite()) {
        return None;
    }
    let u = svd.u.as_ref()?;
    let vt = svd.v_t.as_ref()?;
    let rec = u * DMatrix::from_diagonal(&svd.singular_values) * vt;
    let mut num = 0.0;
    let mut den = 0.0;
    for (x, y) in rec.iter().zip(a.iter()) {
        num += (x.f() - y.f()).powi(2);
        den += y.f().powi(2);
    }
    if den == 0.0 {
        return Some(0.0);
    }
    Some((num / den).sqrt())
}

/// threshold above which a decomposition counts as wrong (orders of magnitude above the
/// accuracy nalgebra normally delivers, orders below the error of the defect)
pub fn svd_bad_threshold<T: Sc>() -> f64 {
    if T::NAME == "f64" {
        1e-9
    } else {
        2e-4
    }
}

/// weighted basis matrix W∘Phi_ref(alpha) in T, as the library forms it
pub fn phi_w<T: Sc>(spec: &ModelSpec, x: &DVector<T>, w: Option<&DVector<T>>, alpha: &[T]) -> DMatrix<T> {
    let mut p = phi::<T>(spec, x, alpha);
    if let Some(w) = w {
        for j in 0..p.ncols() {
            for i in 0..p.nrows() {
                p[(i, j)] = w[i] * p[(i, j)];
            }
        }
    }
    p
}

/// Below this magnitude a singular value of the weighted basis matrix is not represented (and
/// cannot be divided by) with the full relative precision of the scalar width: the smallest
/// normal number divided by the unit round-off (f32: ~2e-31, f64: ~2e-292). Around the final
/// parameters (5117, 357) of a Gaussian far from the data every basis value is an f32
/// *subnormal* with one or two significant bits, the coefficient is ~1e37, and relative
/// errors of several percent are the arithmetic's, not the library's. Toleranced comparisons
/// are gated there (bitwise ones are unaffected).
pub fn underflow_range<T: Sc>() -> f64 {
    T::tiny() / (2.0 * T::u() * T::u())
}
