//! Scenario execution: world construction, the operation-script interpreter, snapshots
//! and fresh-problem references.

use crate::ctl::{beat, Ctl, Event};
use crate::model::{build_separable, SimModel};
use crate::prob::{AnyProb, FitSummary, Mdl, StatsSummary};
use crate::sc::{mat_bits, vec_bits, vec_of, Sc};
use crate::spec::{ModelKind, ModelSpec, Op, OptCfg, Scenario};
use nalgebra::{DMatrix, DVector};
use std::panic::{catch_unwind, AssertUnwindSafe};
use std::sync::{Arc, Mutex};
use varpro::model::SeparableModel;
use varpro::prelude::SeparableNonlinearModel;
use varpro::statistics::FitStatistics;

// ---------------------------------------------------------------------------------------
// panic capture
// ---------------------------------------------------------------------------------------

static LAST_PANIC: Mutex<Option<String>> = Mutex::new(None);

pub fn install_panic_hook() {
    std::panic::set_hook(Box::new(|info| {
        let loc = info
            .location()
            .map(|l| {
                let f = l.file();
                // keep the path tail only: stable across checkouts
                let tail: Vec<&str> = f.rsplit('/').take(3).collect();
                let tail: Vec<&str> = tail.into_iter().rev().collect();
                format!("{}:{}", tail.join("/"), l.line())
            })
            .unwrap_or_else(|| "?".into());
        let msg = if let Some(s) = info.payload().downcast_ref::<&str>() {
            s.to_string()
        } else if let Some(s) = info.payload().downcast_ref::<String>() {
            s.clone()
        } else {
            "<non-string panic>".into()
        };
        if crate::model::TRACE.load(std::sync::atomic::Ordering::Relaxed) {
            eprintln!("  panic: {loc} {msg}");
        }
        let mut g = LAST_PANIC.lock().unwrap_or_else(|e| e.into_inner());
        // keep the first panic of a cascade
        if g.is_none() {
            *g = Some(format!("{loc} {msg}"));
        }
    }));
}

pub fn take_panic() -> Option<String> {
    LAST_PANIC.lock().unwrap_or_else(|e| e.into_inner()).take()
}

/// run `f`, converting a panic into `Err("file:line message")`
pub fn guarded<R>(f: impl FnOnce() -> R) -> Result<R, String> {
    let _ = take_panic();
    match catch_unwind(AssertUnwindSafe(f)) {
        Ok(r) => Ok(r),
        Err(_) => Err(take_panic().unwrap_or_else(|| "? <panic without hook>".into())),
    }
}

// ---------------------------------------------------------------------------------------
// world
// ---------------------------------------------------------------------------------------

pub struct World<T: Sc> {
    pub spec: Arc<ModelSpec>,
    pub x: DVector<T>,
    pub y: DMatrix<T>,
    pub w: Option<DVector<T>>,
    pub eps: Option<T>,
    pub alpha0: Vec<T>,
    pub mrhs: bool,
    pub parallel: bool,
    pub opt: OptCfg,
    /// C06 twin worlds: rows of Phi and of every dPhi/dalpha_k are multiplied by these
    /// factors inside the model (None = the plain model)
    pub row_scale: Option<Arc<Vec<T>>>,
    /// permutation of the problem builder's setter calls
    pub builder_order: u8,
}

impl<T: Sc> World<T> {
    pub fn from_scenario(sc: &Scenario) -> Self {
        let n = sc.x.len();
        let s = sc.y.len();
        // one row per entry of the observation columns: this is n for every scenario except
        // C08's deliberately mis-shaped ones (observations / weights that do not match x)
        let rows = if sc.variant == "hostile" { sc.y.iter().map(|c| c.len()).max().unwrap_or(n) } else { n };
        let mut y = DMatrix::from_element(rows, s, T::of(0.0));
        for (j, col) in sc.y.iter().enumerate() {
            for (i, v) in col.iter().enumerate() {
                if i < rows {
                    y[(i, j)] = T::of(v.0);
                }
            }
        }
        World {
            spec: Arc::new(sc.model.clone()),
            x: vec_of(&crate::spec::unfx(&sc.x)),
            y,
            w: sc.weights.as_ref().map(|w| vec_of(&crate::spec::unfx(w))),
            eps: sc.eps.map(|e| T::of(e.0)),
            alpha0: sc.alpha0.iter().map(|v| T::of(v.0)).collect(),
            mrhs: sc.mrhs,
            parallel: sc.parallel,
            opt: sc.opt.clone(),
            row_scale: None,
            builder_order: sc.builder_order,
        }
    }
    pub fn n(&self) -> usize {
        self.x.len()
    }
    pub fn s(&self) -> usize {
        self.y.ncols()
    }
    pub fn m(&self) -> usize {
        self.spec.m()
    }
    pub fn p(&self) -> usize {
        self.spec.nparams
    }
    /// W∘Y as the simulator forms it from the raw inputs
    pub fn weighted_y(&self) -> DMatrix<T> {
        let mut yw = self.y.clone();
        if let Some(w) = &self.w {
            for j in 0..yw.ncols() {
                for i in 0..yw.nrows() {
                    yw[(i, j)] = w[i] * self.y[(i, j)];
                }
            }
        }
        yw
    }
}

/// How the model of a world is made: hand-written (S1) or builder-made (S2).
pub trait Factory<T: Sc>: 'static {
    type M: Mdl<T>;
    const KIND: ModelKind;
    fn make(w: &World<T>, ctl: Arc<Ctl>, alpha: &[T]) -> Result<Self::M, String>;
    fn clone_prob(p: &AnyProb<T, Self::M>) -> Option<AnyProb<T, Self::M>>;
}

pub struct HandF;
pub struct BuilderF;

impl<T: Sc> Factory<T> for HandF {
    type M = SimModel<T>;
    const KIND: ModelKind = ModelKind::Hand;
    fn make(w: &World<T>, ctl: Arc<Ctl>, alpha: &[T]) -> Result<Self::M, String> {
        let mut m = SimModel::new(
            w.spec.clone(),
            w.x.clone(),
            DVector::from_column_slice(alpha),
            ctl,
        );
        m.row_scale = w.row_scale.clone();
        Ok(m)
    }
    fn clone_prob(p: &AnyProb<T, Self::M>) -> Option<AnyProb<T, Self::M>> {
        Some(p.try_clone())
    }
}

impl<T: Sc> Factory<T> for BuilderF {
    type M = SeparableModel<T>;
    const KIND: ModelKind = ModelKind::Builder;
    fn make(w: &World<T>, ctl: Arc<Ctl>, alpha: &[T]) -> Result<Self::M, String> {
        build_separable(&w.spec, w.x.clone(), alpha.to_vec(), ctl, w.row_scale.clone())
    }
    fn clone_prob(_p: &AnyProb<T, Self::M>) -> Option<AnyProb<T, Self::M>> {
        None
    }
}

// ---------------------------------------------------------------------------------------
// snapshots
// ---------------------------------------------------------------------------------------

#[derive(Clone, Debug, PartialEq)]
pub struct Snap {
    pub params: Vec<u64>,
    pub resid: Option<Vec<u64>>,
    pub coeff: Option<Vec<u64>>,
    pub coeff_shape: (usize, usize),
}

pub fn snap<T: Sc, M: Mdl<T>>(p: &AnyProb<T, M>) -> Snap {
    let c = p.coeffs();
    Snap {
        params: vec_bits(&p.params()),
        resid: p.residuals().map(|r| vec_bits(&r)),
        coeff_shape: c.as_ref().map(|c| c.shape()).unwrap_or((0, 0)),
        coeff: c.map(|c| mat_bits(&c)),
    }
}

#[derive(Clone, Debug, PartialEq)]
pub struct JacObs {
    /// None = jacobian() returned None
    pub bits: Option<Vec<u64>>,
    pub shape: (usize, usize),
}

pub fn jac_obs<T: Sc, M: Mdl<T>>(p: &AnyProb<T, M>) -> JacObs {
    match p.jacobian() {
        None => JacObs {
            bits: None,
            shape: (0, 0),
        },
        Some(j) => JacObs {
            shape: j.shape(),
            bits: Some(mat_bits(&j)),
        },
    }
}

/// A freshly built, fault-free problem at `alpha` (own controller, own model instance).
pub struct Fresh {
    pub snap: Snap,
    pub jac: Option<JacObs>,
}

/// first refusal of the library to build a fresh reference problem during the current
/// scenario (read and cleared by `props::execute`): the drivers skip a comparison they cannot
/// make, and a skipped comparison must not silently count as "held"
pub static FRESH_REFUSED: std::sync::Mutex<Option<String>> = std::sync::Mutex::new(None);

fn note_refusal(e: &str) {
    if let Ok(mut g) = FRESH_REFUSED.lock() {
        if g.is_none() {
            *g = Some(e.to_string());
        }
    }
}

pub fn take_fresh_refusal() -> Option<String> {
    FRESH_REFUSED.lock().ok().and_then(|mut g| g.take())
}

pub fn fresh<T: Sc, F: Factory<T>>(
    w: &World<T>,
    alpha: &[T],
    par: bool,
    want_jac: bool,
) -> Result<Fresh, String> {
    let ctl = Arc::new(Ctl::new(vec![]));
    let model = F::make(w, ctl, alpha).map_err(|e| {
        if alpha.len() == w.p() {
            note_refusal(&e);
        }
        e
    })?;
    // the fresh reference is always built in the canonical order
    let p = AnyProb::build(model, &w.y, w.w.as_ref(), w.eps, w.mrhs, par, 0).map_err(|e| {
        note_refusal(&e);
        e
    })?;
    let s = snap(&p);
    let jac = if want_jac { Some(jac_obs(&p)) } else { None };
    Ok(Fresh { snap: s, jac })
}

// ---------------------------------------------------------------------------------------
// script interpreter
// ---------------------------------------------------------------------------------------

#[derive(Clone, Debug)]
pub struct FitObs<T: Sc> {
    pub with_stats: bool,
    pub ok: bool,
    pub termination: String,
    pub termination_successful: bool,
    pub evaluations: usize,
    pub objective: T,
    pub nl_params: Vec<u64>,
    pub coeffs: Option<DMatrix<T>>,
    pub best_fit: Option<DMatrix<T>>,
    pub best_fit_is_vector: bool,
    pub stats: Option<StatsSummary<T>>,
    /// problem flavour handed in
    pub was_parallel: bool,
    /// end of the model-seam events made by the library call itself: log[ev_from..lib_ev_to]
    /// (what follows up to ev_to are the harness's own queries of the result)
    pub lib_ev_to: usize,
}

#[derive(Clone, Debug)]
pub enum Extra<T: Sc> {
    None,
    Jac(JacObs),
    Fit(Box<FitObs<T>>),
    WeightedData {
        bits: Vec<u64>,
        shape: (usize, usize),
        vector_api: bool,
    },
    /// clone ops: snapshot and jacobian of the clone
    Clone {
        snap: Snap,
        jac: JacObs,
        orig_jac: JacObs,
    },
    Band(Option<Vec<u64>>),
    /// snapshot taken immediately before a conversion
    Converted {
        before: Snap,
    },
    /// direct model call: Ok(bits, shape) or Err(debug string)
    ModelCall(Result<(Vec<u64>, (usize, usize)), String>),
    /// tap mode: the optimizer ran on a tap around the problem
    Tapped(Box<TapObs<T>>),
    /// concurrent callers on the shared problem: what a single caller saw immediately
    /// before, and what every one of the simultaneous callers saw
    Concurrent {
        reference: (Snap, JacObs),
        observed: Vec<Result<(Snap, JacObs), String>>,
        /// the callers really were interleaved (shuttle threads), not run one after another
        overlapped: bool,
        /// model-seam log position after the lone caller finished (the simultaneous callers'
        /// events are log[ref_ev_to..ev_to])
        ref_ev_to: usize,
    },
    /// accessors of the retained `FitResult`, queried after the fit
    ResultView {
        nl_params: Vec<u64>,
        coeffs: Option<DMatrix<T>>,
        best_fit: Option<DMatrix<T>>,
        best_fit_is_vector: bool,
    },
    /// the op could not be applied (e.g. no problem left after a panic)
    Skipped,
}

#[derive(Clone, Debug)]
pub struct TapObs<T: Sc> {
    pub events: Vec<crate::prob::TapEvent>,
    pub termination: String,
    pub termination_successful: bool,
    pub evaluations: usize,
    pub objective: T,
    /// model-seam events of the minimisation proper: log[ev_from..ev_to]
    pub ev_from: usize,
    pub ev_to: usize,
}

#[derive(Clone, Debug)]
pub struct StepObs<T: Sc> {
    pub op: usize,
    pub panic: Option<String>,
    /// state of the problem after the op (None if there is no problem, e.g. lost in a panic)
    pub snap: Option<Snap>,
    pub extra: Extra<T>,
    /// model-seam events produced by this op: log[ev_from..ev_to]
    pub ev_from: usize,
    pub ev_to: usize,
    /// flavour of the problem after the op (conversions and fits change it)
    pub par_after: bool,
}

pub struct Runner<T: Sc, F: Factory<T>> {
    pub world: World<T>,
    pub ctl: Arc<Ctl>,
    pub subject: Option<AnyProb<T, F::M>>,
    pub stats: Option<FitStatistics<F::M>>,
    /// outcome of build(): Ok or the builder's error / a panic
    pub build: Result<(), String>,
    pub build_panic: Option<String>,
    pub build_events: usize,
    /// state right after build()
    pub build_snap: Option<Snap>,
    /// run Fit ops as `minimize` on a tap instead of `LevMarSolver::fit`
    pub tap: bool,
    /// treat conversion ops as no-ops (C11's sequential twin never converts, so that a
    /// conversion that loses part of the problem shows up against it on later use)
    pub skip_conversions: bool,
    pub steps: Vec<StepObs<T>>,
}

impl<T: Sc, F: Factory<T>> Runner<T, F> {
    /// construct model + problem for the scenario (this already crosses the model seam)
    pub fn start(sc: &Scenario, ctl: Arc<Ctl>) -> Self {
        Self::start_with_world(World::<T>::from_scenario(sc), ctl)
    }

    pub fn start_with_world(world: World<T>, ctl: Arc<Ctl>) -> Self {
        crate::ctl::set_phase("build");
        let built = guarded(|| {
            let model = F::make(&world, ctl.clone(), &world.alpha0)?;
            AnyProb::build(
                model,
                &world.y,
                world.w.as_ref(),
                world.eps,
                world.mrhs,
                world.parallel,
                world.builder_order,
            )
        });
        let (subject, build, build_panic) = match built {
            Ok(Ok(p)) => (Some(p), Ok(()), None),
            Ok(Err(e)) => (None, Err(e), None),
            Err(p) => (None, Err("panic".into()), Some(p)),
        };
        let build_events = ctl.log_len();
        let build_snap = subject
            .as_ref()
            .and_then(|p| guarded(|| snap(p)).ok());
        Runner {
            build_snap,
            tap: false,
            skip_conversions: false,
            world,
            ctl,
            subject,
            stats: None,
            build,
            build_panic,
            build_events,
            steps: vec![],
        }
    }

    pub fn run_ops(&mut self, ops: &[Op]) {
        for (i, op) in ops.iter().enumerate() {
            beat();
            if self.subject.is_none() && !matches!(op, Op::Band(_)) {
                self.steps.push(StepObs {
                    op: i,
                    panic: None,
                    snap: None,
                    extra: Extra::Skipped,
                    ev_from: self.ctl.log_len(),
                    ev_to: self.ctl.log_len(),
                    par_after: false,
                });
                continue;
            }
            self.step(i, op);
        }
    }

    pub fn step(&mut self, i: usize, op: &Op) {
        crate::ctl::set_phase(crate::props::common::op_name(op));
        let ev_from = self.ctl.log_len();
        let mut extra = Extra::None;
        let mut panic = None;
        match op {
            Op::SetParams(a) => {
                let a: DVector<T> = DVector::from_iterator(a.len(), a.iter().map(|v| T::of(v.0)));
                let p = self.subject.as_mut().unwrap();
                if let Err(e) = guarded(|| p.set_params(&a)) {
                    panic = Some(e);
                }
            }
            Op::Residuals | Op::Coefficients | Op::Params => {
                // observed through the snapshot below; querying twice is the point
                let p = self.subject.as_ref().unwrap();
                if let Err(e) = guarded(|| {
                    let _ = snap(p);
                }) {
                    panic = Some(e);
                }
            }
            Op::Jacobian => {
                let p = self.subject.as_ref().unwrap();
                match guarded(|| jac_obs(p)) {
                    Ok(j) => extra = Extra::Jac(j),
                    Err(e) => panic = Some(e),
                }
            }
            Op::WeightedData => {
                let p = self.subject.as_ref().unwrap();
                match guarded(|| p.weighted_data()) {
                    Ok((m, vector_api)) => {
                        extra = Extra::WeightedData {
                            shape: m.shape(),
                            bits: mat_bits(&m),
                            vector_api,
                        }
                    }
                    Err(e) => panic = Some(e),
                }
            }
            Op::CloneAndCompare => {
                let p = self.subject.as_ref().unwrap();
                match guarded(|| {
                    F::clone_prob(p).map(|c| {
                        let oj = jac_obs(p);
                        (snap(&c), jac_obs(&c), oj)
                    })
                }) {
                    Ok(Some((s, j, oj))) => {
                        extra = Extra::Clone {
                            snap: s,
                            jac: j,
                            orig_jac: oj,
                        }
                    }
                    Ok(None) => extra = Extra::Skipped,
                    Err(e) => panic = Some(e),
                }
            }
            Op::IntoSequential | Op::IntoParallel if self.skip_conversions => {
                extra = Extra::Skipped;
            }
            Op::IntoSequential => {
                let p = self.subject.take().unwrap();
                let before = snap(&p);
                match guarded(move || p.into_sequential()) {
                    Ok(q) => {
                        self.subject = Some(q);
                        extra = Extra::Converted { before };
                    }
                    Err(e) => panic = Some(e),
                }
            }
            Op::IntoParallel => {
                let p = self.subject.take().unwrap();
                let before = snap(&p);
                match guarded(move || p.into_parallel()) {
                    Ok(q) => {
                        self.subject = Some(q);
                        extra = Extra::Converted { before };
                    }
                    Err(e) => panic = Some(e),
                }
            }
            Op::Fit | Op::FitWithStatistics if self.tap => {
                let p = self.subject.take().unwrap();
                let cfg = self.world.opt.clone();
                let rec = std::rc::Rc::new(std::cell::RefCell::new(vec![]));
                let rec2 = rec.clone();
                let ctl2 = self.ctl.clone();
                let from = self.ctl.log_len();
                let r = guarded(move || p.minimize_tapped(&cfg, rec2, Some(ctl2)));
                let to = self.ctl.log_len();
                match r {
                    Ok((q, termination, ok, evaluations, objective)) => {
                        self.subject = Some(q.into_sequential());
                        let events = rec.borrow().clone();
                        extra = Extra::Tapped(Box::new(TapObs {
                            events,
                            termination,
                            termination_successful: ok,
                            evaluations,
                            objective,
                            ev_from: from,
                            ev_to: to,
                        }));
                    }
                    Err(e) => panic = Some(e),
                }
            }
            Op::Fit | Op::FitWithStatistics => {
                let p = self.subject.take().unwrap();
                let with_stats = matches!(op, Op::FitWithStatistics) && !p.is_mrhs();
                let was_parallel = p.is_parallel();
                let cfg = self.world.opt.clone();
                let r = guarded(move || {
                    if with_stats {
                        p.fit_with_statistics(&cfg)
                    } else {
                        p.fit(&cfg)
                    }
                });
                match r {
                    Ok(fs) => {
                        let FitSummary {
                            ok,
                            termination,
                            termination_successful,
                            evaluations,
                            objective,
                            nl_params,
                            coeffs,
                            best_fit,
                            best_fit_is_vector,
                            problem,
                            stats,
                            stats_obj,
                            lib_events,
                        } = fs;
                        self.subject = Some(problem);
                        self.stats = stats_obj;
                        extra = Extra::Fit(Box::new(FitObs {
                            with_stats,
                            ok,
                            termination,
                            termination_successful,
                            evaluations,
                            objective,
                            nl_params: vec_bits(&nl_params),
                            coeffs,
                            best_fit,
                            best_fit_is_vector,
                            stats,
                            was_parallel,
                            lib_ev_to: ev_from + lib_events as usize,
                        }));
                    }
                    Err(e) => panic = Some(e),
                }
            }
            Op::Band(pv) => match &self.stats {
                None => extra = Extra::Band(None),
                Some(st) => {
                    let pr = T::of(pv.0);
                    match guarded(|| st.confidence_band_radius(pr)) {
                        Ok(v) => extra = Extra::Band(Some(vec_bits(&v))),
                        Err(e) => panic = Some(e),
                    }
                }
            },
            Op::Marathon { count, alphas } => {
                let p = self.subject.as_mut().unwrap();
                let vs: Vec<DVector<T>> = alphas
                    .iter()
                    .map(|a| DVector::from_iterator(a.len(), a.iter().map(|v| T::of(v.0))))
                    .collect();
                if !vs.is_empty() {
                    // bounded by construction: one parameter application and one evaluation
                    // (M closure calls for builder-made models) per update
                    self.ctl.raise_cap(*count as u64 * (self.world.m() as u64 + 2));
                    if let Err(e) = guarded(|| {
                        for i in 0..*count as usize {
                            p.set_params(&vs[i % vs.len()]);
                        }
                    }) {
                        panic = Some(e);
                    }
                }
            }
            Op::ResultView => {
                let p = self.subject.as_ref().unwrap();
                match guarded(|| p.result_view()) {
                    Ok(Some((nl, coeffs, best_fit, best_fit_is_vector))) => {
                        extra = Extra::ResultView {
                            nl_params: vec_bits(&nl),
                            coeffs,
                            best_fit,
                            best_fit_is_vector,
                        }
                    }
                    Ok(None) => extra = Extra::Skipped,
                    Err(e) => panic = Some(e),
                }
            }
            Op::ConcurrentQueries(k) => {
                let p = self.subject.as_ref().unwrap();
                let overlapped = self.ctl.overlap.load(std::sync::atomic::Ordering::SeqCst) && crate::ctl::in_shuttle_thread();
                let ctl = self.ctl.clone();
                match guarded(|| concurrent_queries(p, (*k).max(1) as usize, overlapped, &|| ctl.log_len())) {
                    Ok((reference, observed, ref_ev_to)) => {
                        extra = Extra::Concurrent {
                            reference,
                            observed,
                            overlapped,
                            ref_ev_to,
                        }
                    }
                    Err(e) => panic = Some(e),
                }
            }
            Op::ModelSetParams(_) | Op::ModelEval | Op::ModelDeriv(_) => {
                // bare-model ops are interpreted by the C17 driver, not here
                extra = Extra::Skipped;
            }
        }
        let snap_after = match &self.subject {
            Some(p) => match guarded(|| snap(p)) {
                Ok(s) => Some(s),
                Err(e) => {
                    if panic.is_none() {
                        panic = Some(e);
                    }
                    None
                }
            },
            None => None,
        };
        let ev_to = self.ctl.log_len();
        self.steps.push(StepObs {
            op: i,
            panic,
            snap: snap_after,
            extra,
            ev_from,
            ev_to,
            par_after: self.subject.as_ref().map(|p| p.is_parallel()).unwrap_or(false),
        });
    }

    pub fn events(&self, st: &StepObs<T>) -> Vec<Event> {
        let log = self.ctl.log();
        log[st.ev_from.min(log.len())..st.ev_to.min(log.len())].to_vec()
    }
}

/// One caller queries the problem alone (the reference), then `k` callers query it at the
/// same time through `&self`. Under the shuttle runtime (`overlapped`) the callers are shuttle
/// threads: the model seam's scheduling points let the seeded scheduler interleave them
/// inside `jacobian()` (and, for the parallel flavour, with the stolen arms of each caller's
/// own column loop). Odd-numbered callers ask for the Jacobian first, the others last.
#[allow(clippy::type_complexity)]
pub fn concurrent_queries<T: Sc, M: Mdl<T>>(
    p: &AnyProb<T, M>,
    k: usize,
    overlapped: bool,
    mark: &dyn Fn() -> usize,
) -> ((Snap, JacObs), Vec<Result<(Snap, JacObs), String>>, usize) {
    let query = |p: &AnyProb<T, M>, i: usize| -> (Snap, JacObs) {
        if i % 2 == 1 {
            let j = jac_obs(p);
            (snap(p), j)
        } else {
            let s = snap(p);
            (s, jac_obs(p))
        }
    };
    let reference = query(p, 0);
    let ref_ev_to = mark();
    let mut observed = vec![];
    if !overlapped {
        for i in 0..k {
            observed.push(Ok(query(p, i)));
        }
        return (reference, observed, ref_ev_to);
    }
    // shuttle threads need 'static closures: erase the borrow's lifetime; soundness rests on
    // the unconditional joins below (this frame neither returns nor unwinds before them)
    type Job<'a> = Box<dyn FnOnce() -> Result<(Snap, JacObs), String> + Send + 'a>;
    let mut handles = vec![];
    for i in 1..k {
        // AnyProb<T, M> is Sync (M: Sync): sharing `&` across threads is what the type allows
        let job: Job<'_> = Box::new(move || {
            catch_unwind(AssertUnwindSafe(|| {
                if i % 2 == 1 {
                    let j = jac_obs(p);
                    (snap(p), j)
                } else {
                    let s = snap(p);
                    (s, jac_obs(p))
                }
            }))
            .map_err(|_| take_panic().unwrap_or_else(|| "? <panic in a concurrent caller>".into()))
        });
        let job: Job<'static> = unsafe { std::mem::transmute::<Job<'_>, Job<'static>>(job) };
        let h = shuttle::thread::spawn(move || job());
        handles.push(h);
    }
    let mine = catch_unwind(AssertUnwindSafe(|| query(p, 0)))
        .map_err(|_| take_panic().unwrap_or_else(|| "? <panic in a concurrent caller>".into()));
    let mut rest = vec![];
    for h in handles {
        rest.push(match h.join() {
            Ok(r) => r,
            Err(_) => Err("? <concurrent caller thread died>".to_string()),
        });
    }
    observed.push(mine);
    observed.extend(rest);
    (reference, observed, ref_ev_to)
}

/// direct calls on a bare model (C17)
pub fn model_eval_obs<T: Sc, M: SeparableNonlinearModel<ScalarType = T>>(
    m: &M,
) -> Result<(Vec<u64>, (usize, usize)), String>
where
    M::Error: std::fmt::Debug,
{
    m.eval()
        .map(|v| (mat_bits(&v), v.shape()))
        .map_err(|e| format!("{e:?}"))
}
