//! Poisoning global allocator (seam S4): every fresh heap block, and the grown part of a
//! reallocated block, is filled with the per-run byte pattern. `alloc_zeroed` keeps its
//! contract. With the pattern switched off it is the system allocator.

use std::alloc::{GlobalAlloc, Layout, System};
use std::sync::atomic::{AtomicBool, AtomicU64, AtomicU8, Ordering};

pub struct Poison;

static FILL: AtomicU8 = AtomicU8::new(0);
static ON: AtomicBool = AtomicBool::new(false);
pub static BLOCKS_POISONED: AtomicU64 = AtomicU64::new(0);

pub fn set_fill(byte: u8) {
    FILL.store(byte, Ordering::SeqCst);
    ON.store(true, Ordering::SeqCst);
}
pub fn off() {
    ON.store(false, Ordering::SeqCst);
}

unsafe impl GlobalAlloc for Poison {
    unsafe fn alloc(&self, l: Layout) -> *mut u8 {
        let p = System.alloc(l);
        if !p.is_null() && ON.load(Ordering::Relaxed) {
            std::ptr::write_bytes(p, FILL.load(Ordering::Relaxed), l.size());
            BLOCKS_POISONED.fetch_add(1, Ordering::Relaxed);
        }
        p
    }
    unsafe fn dealloc(&self, p: *mut u8, l: Layout) {
        System.dealloc(p, l)
    }
    unsafe fn alloc_zeroed(&self, l: Layout) -> *mut u8 {
        System.alloc_zeroed(l)
    }
    unsafe fn realloc(&self, p: *mut u8, l: Layout, new: usize) -> *mut u8 {
        let q = System.realloc(p, l, new);
        if !q.is_null() && new > l.size() && ON.load(Ordering::Relaxed) {
            std::ptr::write_bytes(q.add(l.size()), FILL.load(Ordering::Relaxed), new - l.size());
        }
        q
    }
}
