//! Uniform handle over the four flavours of `LevMarProblem` (single/multiple right-hand
//! sides × sequential/parallel), the tap (S5) and fit summaries.

use crate::sc::Sc;
use crate::spec::OptCfg;
use levenberg_marquardt::{LeastSquaresProblem, LevenbergMarquardt, TerminationReason};
use nalgebra::storage::Owned;
use nalgebra::{DMatrix, DVector, Dyn, Matrix, Vector};
use std::cell::RefCell;
use std::rc::Rc;
use varpro::prelude::SeparableNonlinearModel;
use varpro::solvers::levmar::{FitResult, LevMarProblem, LevMarProblemBuilder, LevMarSolver};
use varpro::statistics::FitStatistics;

pub trait Mdl<T: Sc>: SeparableNonlinearModel<ScalarType = T> + Sync {}
impl<T: Sc, M: SeparableNonlinearModel<ScalarType = T> + Sync> Mdl<T> for M {}

pub enum AnyProb<T: Sc, M: SeparableNonlinearModel<ScalarType = T>> {
    SS(LevMarProblem<M, false, false>),
    SP(LevMarProblem<M, false, true>),
    MS(LevMarProblem<M, true, false>),
    MP(LevMarProblem<M, true, true>),
    /// the problem still living inside the `FitResult` that `fit` returned: later operations
    /// act on `result.problem` (a public field), so that the result's own accessors
    /// (`best_fit`, `linear_coefficients`, `nonlinear_parameters`) can be queried again
    /// after the problem inside it has moved on
    RS(Box<FitResult<M, false>>),
    RM(Box<FitResult<M, true>>),
}

macro_rules! each {
    ($s:expr, $p:ident => $e:expr) => {
        match $s {
            AnyProb::SS($p) => $e,
            AnyProb::SP($p) => $e,
            AnyProb::MS($p) => $e,
            AnyProb::MP($p) => $e,
            AnyProb::RS(r) => {
                let $p = &r.problem;
                $e
            }
            AnyProb::RM(r) => {
                let $p = &r.problem;
                $e
            }
        }
    };
}

macro_rules! each_mut {
    ($s:expr, $p:ident => $e:expr) => {
        match $s {
            AnyProb::SS($p) => $e,
            AnyProb::SP($p) => $e,
            AnyProb::MS($p) => $e,
            AnyProb::MP($p) => $e,
            AnyProb::RS(r) => {
                let $p = &mut r.problem;
                $e
            }
            AnyProb::RM(r) => {
                let $p = &mut r.problem;
                $e
            }
        }
    };
}

pub fn make_lm<T: Sc>(cfg: &OptCfg) -> LevenbergMarquardt<T> {
    let mut lm = LevenbergMarquardt::<T>::new()
        .with_patience(cfg.patience.max(1))
        .with_scale_diag(cfg.scale_diag);
    if let Some(v) = cfg.ftol {
        lm = lm.with_ftol(T::of(v.0));
    }
    if let Some(v) = cfg.xtol {
        lm = lm.with_xtol(T::of(v.0));
    }
    if let Some(v) = cfg.gtol {
        lm = lm.with_gtol(T::of(v.0));
    }
    if let Some(v) = cfg.stepbound {
        lm = lm.with_stepbound(T::of(v.0));
    }
    lm
}

#[derive(Clone, Debug)]
pub struct StatsSummary<T: Sc> {
    pub weighted_residuals: DVector<T>,
    pub reduced_chi2: T,
    pub reg_std_err: T,
    pub covariance: DMatrix<T>,
    pub correlation: DMatrix<T>,
    pub nl_var: DVector<T>,
    pub lin_var: DVector<T>,
}

pub struct FitSummary<T: Sc, M: SeparableNonlinearModel<ScalarType = T>> {
    /// `fit` returned Ok(..)
    pub ok: bool,
    pub termination: String,
    pub termination_successful: bool,
    pub evaluations: usize,
    pub objective: T,
    pub nl_params: DVector<T>,
    pub coeffs: Option<DMatrix<T>>,
    /// `FitResult::best_fit()`: (values, is a vector i.e. single-rhs API)
    pub best_fit: Option<DMatrix<T>>,
    pub best_fit_is_vector: bool,
    pub problem: AnyProb<T, M>,
    pub stats: Option<StatsSummary<T>>,
    /// the FitStatistics object itself, for band queries
    pub stats_obj: Option<FitStatistics<M>>,
    /// model-seam events made by the library call itself (fit / fit_with_statistics), i.e.
    /// before the harness started to query the result
    pub lib_events: u64,
}

pub fn term_name(t: &TerminationReason) -> String {
    match t {
        TerminationReason::User(s) => format!("User({s})"),
        TerminationReason::Numerical(s) => format!("Numerical({s})"),
        TerminationReason::ResidualsZero => "ResidualsZero".into(),
        TerminationReason::Orthogonal => "Orthogonal".into(),
        TerminationReason::Converged { ftol, xtol } => {
            format!("Converged(ftol={ftol},xtol={xtol})")
        }
        TerminationReason::NoImprovementPossible(s) => format!("NoImprovementPossible({s})"),
        TerminationReason::LostPatience => "LostPatience".into(),
        TerminationReason::NoParameters => "NoParameters".into(),
        TerminationReason::NoResiduals => "NoResiduals".into(),
        TerminationReason::WrongDimensions(s) => format!("WrongDimensions({s})"),
    }
}

fn summarize_s<T: Sc, M: Mdl<T>>(
    ok: bool,
    r: FitResult<M, false>,
    stats: Option<FitStatistics<M>>,
) -> FitSummary<T, M> {
    let coeffs = r
        .linear_coefficients()
        .map(|c| DMatrix::from_column_slice(c.nrows(), 1, c.clone_owned().as_slice()));
    let best = r
        .best_fit()
        .map(|b| DMatrix::from_column_slice(b.nrows(), 1, b.as_slice()));
    let nl = r.nonlinear_parameters();
    let ss = stats.as_ref().map(|s| StatsSummary {
        weighted_residuals: s.weighted_residuals(),
        reduced_chi2: s.reduced_chi2(),
        reg_std_err: s.regression_standard_error(),
        covariance: s.covariance_matrix().clone(),
        correlation: s.calculate_correlation_matrix(),
        nl_var: s.nonlinear_parameters_variance(),
        lin_var: s.linear_coefficients_variance(),
    });
    FitSummary {
        ok,
        termination: term_name(&r.minimization_report.termination),
        termination_successful: r.minimization_report.termination.was_successful(),
        evaluations: r.minimization_report.number_of_evaluations,
        objective: r.minimization_report.objective_function,
        nl_params: nl,
        coeffs,
        best_fit: best,
        best_fit_is_vector: true,
        problem: AnyProb::RS(Box::new(r)),
        stats: ss,
        stats_obj: stats,
        lib_events: 0,
    }
}

fn summarize_m<T: Sc, M: Mdl<T>>(ok: bool, r: FitResult<M, true>) -> FitSummary<T, M> {
    let coeffs = r.linear_coefficients().map(|c| c.clone_owned());
    let best = r.best_fit();
    let nl = r.nonlinear_parameters();
    FitSummary {
        ok,
        termination: term_name(&r.minimization_report.termination),
        termination_successful: r.minimization_report.termination.was_successful(),
        evaluations: r.minimization_report.number_of_evaluations,
        objective: r.minimization_report.objective_function,
        nl_params: nl,
        coeffs,
        best_fit: best,
        best_fit_is_vector: false,
        problem: AnyProb::RM(Box::new(r)),
        stats: None,
        stats_obj: None,
        lib_events: 0,
    }
}

fn with_events<T: Sc, M: SeparableNonlinearModel<ScalarType = T>>(mut f: FitSummary<T, M>, n: u64) -> FitSummary<T, M> {
    f.lib_events = n;
    f
}

#[derive(Debug, Clone, PartialEq)]
pub enum BuildErr {
    Builder(String),
}

impl<T: Sc, M: Mdl<T>> AnyProb<T, M> {
    /// Build through the public builders. `y` has one column per right-hand side; with
    /// `mrhs == false` it must have exactly one column. `order` (0..6) permutes the three
    /// setter calls observations / weights / epsilon: the builder must not care.
    pub fn build(
        model: M,
        y: &DMatrix<T>,
        w: Option<&DVector<T>>,
        eps: Option<T>,
        mrhs: bool,
        par: bool,
        order: u8,
    ) -> Result<Self, String> {
        const PERMS: [[u8; 3]; 6] = [[0, 1, 2], [0, 2, 1], [1, 0, 2], [1, 2, 0], [2, 0, 1], [2, 1, 0]];
        let perm = PERMS[(order % 6) as usize];
        // repeated setter calls ((order / 6) % 4: bit 0 = weights, bit 1 = observations): a
        // first call with other (well-formed) values, then the permuted sequence with the
        // real ones; the later call must simply replace the earlier one
        let dup = (order / 6) % 4;
        let w_other: Option<DVector<T>> = w.map(|w| {
            let n = w.len();
            DVector::from_iterator(n, (0..n).map(|i| w[n - 1 - i] * T::of(3.0) + T::of(0.5)))
        });
        let y_other: DMatrix<T> = {
            let (n, c) = y.shape();
            DMatrix::from_fn(n, c, |i, j| y[(n - 1 - i, j)] * T::of(-2.0) + T::of(1.0))
        };
        macro_rules! finish {
            ($b:expr, $obs:expr, $obs_other:expr, $variant:ident) => {{
                let mut b = $b;
                if dup & 1 == 1 {
                    if let Some(wo) = &w_other {
                        b = b.weights(wo.clone());
                    }
                }
                if dup & 2 == 2 {
                    b = b.observations($obs_other);
                }
                for step in perm {
                    match step {
                        0 => b = b.observations($obs),
                        1 => {
                            if let Some(w) = w {
                                b = b.weights(w.clone());
                            }
                        }
                        _ => {
                            if let Some(e) = eps {
                                b = b.epsilon(e);
                            }
                        }
                    }
                }
                b.build()
                    .map(AnyProb::$variant)
                    .map_err(|e| format!("{e:?}"))
            }};
        }
        let yv = || DVector::from_column_slice(y.column(0).clone_owned().as_slice());
        let yov = || DVector::from_column_slice(y_other.column(0).clone_owned().as_slice());
        match (mrhs, par) {
            (false, false) => finish!(LevMarProblemBuilder::new(model), yv(), yov(), SS),
            (false, true) => finish!(LevMarProblemBuilder::new_parallel(model), yv(), yov(), SP),
            (true, false) => finish!(LevMarProblemBuilder::mrhs(model), y.clone(), y_other.clone(), MS),
            (true, true) => finish!(LevMarProblemBuilder::mrhs_parallel(model), y.clone(), y_other.clone(), MP),
        }
    }

    pub fn is_parallel(&self) -> bool {
        matches!(self, AnyProb::SP(_) | AnyProb::MP(_))
    }
    pub fn is_mrhs(&self) -> bool {
        matches!(self, AnyProb::MS(_) | AnyProb::MP(_) | AnyProb::RM(_))
    }
    /// does the problem live inside a `FitResult`?
    pub fn in_result(&self) -> bool {
        matches!(self, AnyProb::RS(_) | AnyProb::RM(_))
    }
    /// take the problem out of the `FitResult` it lives in (no-op otherwise)
    pub fn unwrap_result(self) -> Self {
        match self {
            AnyProb::RS(r) => AnyProb::SS(r.problem),
            AnyProb::RM(r) => AnyProb::MS(r.problem),
            o => o,
        }
    }
    /// the accessors of the `FitResult` the problem lives in, queried now:
    /// (nonlinear_parameters, linear_coefficients, best_fit, best_fit is a vector)
    #[allow(clippy::type_complexity)]
    pub fn result_view(&self) -> Option<(DVector<T>, Option<DMatrix<T>>, Option<DMatrix<T>>, bool)> {
        match self {
            AnyProb::RS(r) => Some((
                r.nonlinear_parameters(),
                r.linear_coefficients()
                    .map(|c| DMatrix::from_column_slice(c.nrows(), 1, c.clone_owned().as_slice())),
                r.best_fit().map(|b| DMatrix::from_column_slice(b.nrows(), 1, b.as_slice())),
                true,
            )),
            AnyProb::RM(r) => Some((
                r.nonlinear_parameters(),
                r.linear_coefficients().map(|c| c.clone_owned()),
                r.best_fit(),
                false,
            )),
            _ => None,
        }
    }

    pub fn set_params(&mut self, a: &DVector<T>) {
        each_mut!(self, p => p.set_params(a))
    }
    pub fn params(&self) -> DVector<T> {
        each!(self, p => p.params())
    }
    pub fn residuals(&self) -> Option<DVector<T>> {
        each!(self, p => p.residuals())
    }
    pub fn jacobian(&self) -> Option<DMatrix<T>> {
        each!(self, p => p.jacobian())
    }
    pub fn coeffs(&self) -> Option<DMatrix<T>> {
        match self {
            AnyProb::SS(p) => p
                .linear_coefficients()
                .map(|c| DMatrix::from_column_slice(c.nrows(), 1, c.clone_owned().as_slice())),
            AnyProb::SP(p) => p
                .linear_coefficients()
                .map(|c| DMatrix::from_column_slice(c.nrows(), 1, c.clone_owned().as_slice())),
            AnyProb::MS(p) => p.linear_coefficients().map(|c| c.clone_owned()),
            AnyProb::MP(p) => p.linear_coefficients().map(|c| c.clone_owned()),
            AnyProb::RS(r) => r
                .problem
                .linear_coefficients()
                .map(|c| DMatrix::from_column_slice(c.nrows(), 1, c.clone_owned().as_slice())),
            AnyProb::RM(r) => r.problem.linear_coefficients().map(|c| c.clone_owned()),
        }
    }
    /// (weighted data, number of columns the accessor's *type* promises: 1 = vector API)
    pub fn weighted_data(&self) -> (DMatrix<T>, bool) {
        match self {
            AnyProb::SS(p) => {
                let v = p.weighted_data();
                (
                    DMatrix::from_column_slice(v.nrows(), 1, v.clone_owned().as_slice()),
                    true,
                )
            }
            AnyProb::SP(p) => {
                let v = p.weighted_data();
                (
                    DMatrix::from_column_slice(v.nrows(), 1, v.clone_owned().as_slice()),
                    true,
                )
            }
            AnyProb::MS(p) => (p.weighted_data().clone_owned(), false),
            AnyProb::MP(p) => (p.weighted_data().clone_owned(), false),
            AnyProb::RS(r) => {
                let v = r.problem.weighted_data();
                (
                    DMatrix::from_column_slice(v.nrows(), 1, v.clone_owned().as_slice()),
                    true,
                )
            }
            AnyProb::RM(r) => (r.problem.weighted_data().clone_owned(), false),
        }
    }
    pub fn model(&self) -> &M {
        each!(self, p => p.model())
    }
    pub fn into_sequential(self) -> Self {
        match self.unwrap_result() {
            AnyProb::SS(p) => AnyProb::SS(p.into_sequential()),
            AnyProb::SP(p) => AnyProb::SS(p.into_sequential()),
            AnyProb::MS(p) => AnyProb::MS(p.into_sequential()),
            AnyProb::MP(p) => AnyProb::MS(p.into_sequential()),
            AnyProb::RS(_) | AnyProb::RM(_) => unreachable!(),
        }
    }

    /// `into_parallel()`; the flavour of the result is whatever the library's return type
    /// says (at the pinned commit that is the *sequential* type), absorbed by `IntoAny`
    pub fn into_parallel(self) -> Self {
        match self.unwrap_result() {
            AnyProb::SS(p) => p.into_parallel().into_any(),
            AnyProb::SP(p) => p.into_parallel().into_any(),
            AnyProb::MS(p) => p.into_parallel().into_any(),
            AnyProb::MP(p) => p.into_parallel().into_any(),
            AnyProb::RS(_) | AnyProb::RM(_) => unreachable!(),
        }
    }

    pub fn fit(self, cfg: &OptCfg) -> FitSummary<T, M> {
        let lm = make_lm::<T>(cfg);
        let e0 = crate::ctl::EVENTS.load(std::sync::atomic::Ordering::SeqCst);
        let ev = move || crate::ctl::EVENTS.load(std::sync::atomic::Ordering::SeqCst) - e0;
        match self.unwrap_result() {
            AnyProb::SS(p) => match { let res = LevMarSolver::with_solver(lm).fit(p); let n = ev(); (res, n) } {
                (Ok(r), n) => with_events(summarize_s(true, r, None), n),
                (Err(r), n) => with_events(summarize_s(false, r, None), n),
            },
            AnyProb::SP(p) => match { let res = LevMarSolver::with_solver(lm).fit(p); let n = ev(); (res, n) } {
                (Ok(r), n) => with_events(summarize_s(true, r, None), n),
                (Err(r), n) => with_events(summarize_s(false, r, None), n),
            },
            AnyProb::MS(p) => match { let res = LevMarSolver::with_solver(lm).fit(p); let n = ev(); (res, n) } {
                (Ok(r), n) => with_events(summarize_m(true, r), n),
                (Err(r), n) => with_events(summarize_m(false, r), n),
            },
            AnyProb::MP(p) => match { let res = LevMarSolver::with_solver(lm).fit(p); let n = ev(); (res, n) } {
                (Ok(r), n) => with_events(summarize_m(true, r), n),
                (Err(r), n) => with_events(summarize_m(false, r), n),
            },
            AnyProb::RS(_) | AnyProb::RM(_) => unreachable!(),
        }
    }

    /// `fit_with_statistics`; for multiple right-hand sides (no such API) falls back to `fit`.
    pub fn fit_with_statistics(self, cfg: &OptCfg) -> FitSummary<T, M> {
        let lm = make_lm::<T>(cfg);
        let e0 = crate::ctl::EVENTS.load(std::sync::atomic::Ordering::SeqCst);
        let ev = move || crate::ctl::EVENTS.load(std::sync::atomic::Ordering::SeqCst) - e0;
        match self.unwrap_result() {
            AnyProb::SS(p) => match { let res = LevMarSolver::with_solver(lm).fit_with_statistics(p); let n = ev(); (res, n) } {
                (Ok((r, s)), n) => with_events(summarize_s(true, r, Some(s)), n),
                (Err(r), n) => with_events(summarize_s(false, r, None), n),
            },
            AnyProb::SP(p) => match { let res = LevMarSolver::with_solver(lm).fit_with_statistics(p); let n = ev(); (res, n) } {
                (Ok((r, s)), n) => with_events(summarize_s(true, r, Some(s)), n),
                (Err(r), n) => with_events(summarize_s(false, r, None), n),
            },
            other => other.fit(cfg),
        }
    }

    /// Run the real optimizer on a tap wrapped around this problem (the step-by-step view).
    pub fn minimize_tapped(
        self,
        cfg: &OptCfg,
        rec: Rc<RefCell<Vec<TapEvent>>>,
        ctl: Option<std::sync::Arc<crate::ctl::Ctl>>,
    ) -> (Self, String, bool, usize, T) {
        let lm = make_lm::<T>(cfg);
        macro_rules! run {
            ($p:expr, $variant:ident) => {{
                let (tap, report) = lm.minimize(Tap {
                    inner: $p,
                    rec: rec.clone(),
                    ctl: ctl.clone(),
                });
                (
                    AnyProb::$variant(tap.inner),
                    term_name(&report.termination),
                    report.termination.was_successful(),
                    report.number_of_evaluations,
                    report.objective_function,
                )
            }};
        }
        match self.unwrap_result() {
            AnyProb::SS(p) => run!(p, SS),
            AnyProb::SP(p) => run!(p, SP),
            AnyProb::MS(p) => run!(p, MS),
            AnyProb::MP(p) => run!(p, MP),
            AnyProb::RS(_) | AnyProb::RM(_) => unreachable!(),
        }
    }
}

impl<T: Sc, M: Mdl<T> + Clone> AnyProb<T, M> {
    pub fn try_clone(&self) -> Self {
        match self {
            AnyProb::SS(p) => AnyProb::SS(p.clone()),
            AnyProb::SP(p) => AnyProb::SP(p.clone()),
            AnyProb::MS(p) => AnyProb::MS(p.clone()),
            AnyProb::MP(p) => AnyProb::MP(p.clone()),
            AnyProb::RS(r) => AnyProb::SS(r.problem.clone()),
            AnyProb::RM(r) => AnyProb::MS(r.problem.clone()),
        }
    }
}

// ---------------------------------------------------------------------------------------
// tap (S5): pass-through LeastSquaresProblem that records what the optimizer asked for
// ---------------------------------------------------------------------------------------

#[derive(Clone, Debug, PartialEq)]
pub enum TapKind {
    SetParams(Vec<u64>),
    /// bits of the residual vector handed to the optimizer (None = absent)
    Residuals(Option<Vec<u64>>),
    Jacobian(Option<Vec<u64>>),
    Params(Vec<u64>),
}

#[derive(Clone, Debug, PartialEq)]
pub struct TapEvent {
    pub kind: TapKind,
    /// model-seam events caused by this call: log[ev_from..ev_to]
    pub ev_from: usize,
    pub ev_to: usize,
}

pub struct Tap<P> {
    pub inner: P,
    pub rec: Rc<RefCell<Vec<TapEvent>>>,
    pub ctl: Option<std::sync::Arc<crate::ctl::Ctl>>,
}

impl<P> Tap<P> {
    fn pos(&self) -> usize {
        self.ctl.as_ref().map(|c| c.log_len()).unwrap_or(0)
    }
    fn push(&self, kind: TapKind, ev_from: usize) {
        let ev_to = self.pos();
        self.rec.borrow_mut().push(TapEvent {
            kind,
            ev_from,
            ev_to,
        });
    }
}

impl<T, P> LeastSquaresProblem<T, Dyn, Dyn> for Tap<P>
where
    T: Sc,
    P: LeastSquaresProblem<
        T,
        Dyn,
        Dyn,
        ResidualStorage = Owned<T, Dyn>,
        JacobianStorage = Owned<T, Dyn, Dyn>,
        ParameterStorage = Owned<T, Dyn>,
    >,
{
    type ResidualStorage = Owned<T, Dyn>;
    type JacobianStorage = Owned<T, Dyn, Dyn>;
    type ParameterStorage = Owned<T, Dyn>;

    fn set_params(&mut self, x: &Vector<T, Dyn, Self::ParameterStorage>) {
        let from = self.pos();
        self.inner.set_params(x);
        self.push(
            TapKind::SetParams(x.iter().map(|v| v.bits()).collect()),
            from,
        );
    }
    fn params(&self) -> Vector<T, Dyn, Self::ParameterStorage> {
        let from = self.pos();
        let p = self.inner.params();
        self.push(TapKind::Params(p.iter().map(|v| v.bits()).collect()), from);
        p
    }
    fn residuals(&self) -> Option<Vector<T, Dyn, Self::ResidualStorage>> {
        let from = self.pos();
        let r = self.inner.residuals();
        self.push(
            TapKind::Residuals(r.as_ref().map(|r| r.iter().map(|v| v.bits()).collect())),
            from,
        );
        r
    }
    fn jacobian(&self) -> Option<Matrix<T, Dyn, Dyn, Self::JacobianStorage>> {
        let from = self.pos();
        let j = self.inner.jacobian();
        self.push(
            TapKind::Jacobian(j.as_ref().map(|j| j.iter().map(|v| v.bits()).collect())),
            from,
        );
        j
    }
}

/// wraps a concrete problem type into the flavour enum, whichever of the four it is
pub trait IntoAny<T: Sc, M: Mdl<T>> {
    fn into_any(self) -> AnyProb<T, M>;
}
impl<T: Sc, M: Mdl<T>> IntoAny<T, M> for LevMarProblem<M, false, false> {
    fn into_any(self) -> AnyProb<T, M> {
        AnyProb::SS(self)
    }
}
impl<T: Sc, M: Mdl<T>> IntoAny<T, M> for LevMarProblem<M, false, true> {
    fn into_any(self) -> AnyProb<T, M> {
        AnyProb::SP(self)
    }
}
impl<T: Sc, M: Mdl<T>> IntoAny<T, M> for LevMarProblem<M, true, false> {
    fn into_any(self) -> AnyProb<T, M> {
        AnyProb::MS(self)
    }
}
impl<T: Sc, M: Mdl<T>> IntoAny<T, M> for LevMarProblem<M, true, true> {
    fn into_any(self) -> AnyProb<T, M> {
        AnyProb::MP(self)
    }
}
