//! Fully materialised scenario description. A run is a pure function of a `Scenario`;
//! replay files contain exactly this structure (floats as exact bit patterns).

use serde::{Deserialize, Deserializer, Serialize, Serializer};

/// f64 that serialises as "<decimal>|<16 hex digits>" and is parsed from the hex part, so
/// that replay is bit-exact and NaN/inf survive JSON.
#[derive(Clone, Copy, Debug)]
pub struct Fx(pub f64);

impl PartialEq for Fx {
    fn eq(&self, o: &Self) -> bool {
        self.0.to_bits() == o.0.to_bits()
    }
}

impl Serialize for Fx {
    fn serialize<S: Serializer>(&self, s: S) -> Result<S::Ok, S::Error> {
        s.serialize_str(&format!("{:e}|{:016x}", self.0, self.0.to_bits()))
    }
}

impl<'de> Deserialize<'de> for Fx {
    fn deserialize<D: Deserializer<'de>>(d: D) -> Result<Self, D::Error> {
        let s = String::deserialize(d)?;
        let hex = s.rsplit('|').next().unwrap_or("");
        let bits = u64::from_str_radix(hex, 16)
            .map_err(|e| serde::de::Error::custom(format!("bad float '{s}': {e}")))?;
        Ok(Fx(f64::from_bits(bits)))
    }
}

pub fn fxs(v: &[f64]) -> Vec<Fx> {
    v.iter().map(|x| Fx(*x)).collect()
}
pub fn unfx(v: &[Fx]) -> Vec<f64> {
    v.iter().map(|x| x.0).collect()
}

#[derive(Clone, Copy, Debug, PartialEq, Eq, Serialize, Deserialize, PartialOrd, Ord, Hash)]
pub enum Width {
    F64,
    F32,
}

#[derive(Clone, Copy, Debug, PartialEq, Eq, Serialize, Deserialize, PartialOrd, Ord, Hash)]
pub enum Family {
    /// exp(-x/tau)
    ExpTau,
    /// exp(-a x)
    ExpRate,
    /// exp(-(x-mu)^2 / (2 s^2))
    Gauss,
    /// exp(-a x) cos(b x)
    DampCos,
    /// exp(-a x) sin(b x)
    DampSin,
    /// 1 / (1 + a x)
    Rational,
    /// exp(-a x) cos(b x + phi)
    PhaseCos,
    /// p0 + p1 x + p2 x^2 + p3 x^3 (arity 4: argument order matters in every position)
    Cubic4,
    /// exp(-(p0 + p1 x)) * (p2 + p3 x + p4 x^2) (arity 5)
    ExpQuad5,
    /// 1
    Const,
    /// x
    Linear,
    /// tanh((x - x0) / w): finite and *different* for w = +0 and w = -0 (the step flips), the
    /// one family whose value depends on the sign of a zero parameter. Not in PARAMETRIC: it
    /// replaces a two-parameter function in a hash-selected subset of scenarios
    TanhStep,
}

impl Family {
    pub fn arity(self) -> usize {
        match self {
            Family::ExpTau | Family::ExpRate | Family::Rational => 1,
            Family::Gauss | Family::DampCos | Family::DampSin | Family::TanhStep => 2,
            Family::PhaseCos => 3,
            Family::Cubic4 => 4,
            Family::ExpQuad5 => 5,
            Family::Const | Family::Linear => 0,
        }
    }
    pub const PARAMETRIC: [Family; 9] = [
        Family::ExpTau,
        Family::ExpRate,
        Family::Gauss,
        Family::DampCos,
        Family::DampSin,
        Family::Rational,
        Family::PhaseCos,
        Family::Cubic4,
        Family::ExpQuad5,
    ];
}

#[derive(Clone, Debug, PartialEq, Serialize, Deserialize)]
pub struct FuncSpec {
    pub family: Family,
    /// for each own parameter, the index of the model parameter it is bound to
    pub params: Vec<usize>,
}

#[derive(Clone, Copy, Debug, PartialEq, Eq, Serialize, Deserialize, PartialOrd, Ord, Hash)]
pub enum ModelKind {
    /// hand-written `SimModel` implementing the trait directly (seam S1)
    Hand,
    /// `SeparableModel` made by `SeparableModelBuilder` from closures (seam S2)
    Builder,
}

#[derive(Clone, Debug, PartialEq, Serialize, Deserialize)]
pub struct ModelSpec {
    pub kind: ModelKind,
    pub funcs: Vec<FuncSpec>,
    /// number of nonlinear model parameters P
    pub nparams: usize,
    /// hand-written model only: what a failing `set_params` does with the new values
    pub store_then_fail: bool,
}

impl ModelSpec {
    pub fn m(&self) -> usize {
        self.funcs.len()
    }
}

#[derive(Clone, Copy, Debug, PartialEq, Eq, Serialize, Deserialize, PartialOrd, Ord, Hash)]
pub enum CallKind {
    /// hand-written model: `set_params`
    SetParams,
    /// hand-written model: `eval`
    Eval,
    /// hand-written model: `eval_partial_deriv(k)`
    Deriv(usize),
    /// builder-made model: closure of basis function j
    Func(usize),
    /// builder-made model: closure d f_j / d alpha_k
    FuncDeriv(usize, usize),
}

impl CallKind {
    pub fn class(self) -> &'static str {
        match self {
            CallKind::SetParams => "set_params",
            CallKind::Eval => "eval",
            CallKind::Deriv(_) => "deriv",
            CallKind::Func(_) => "func",
            CallKind::FuncDeriv(_, _) => "func_deriv",
        }
    }
}

#[derive(Clone, Copy, Debug, PartialEq, Serialize, Deserialize)]
pub enum BadValue {
    Nan,
    PosInf,
    NegInf,
}

#[derive(Clone, Copy, Debug, PartialEq, Serialize, Deserialize)]
pub enum FaultAction {
    /// the call returns its error value (for a builder closure: a wrong-length vector of
    /// length N+1, the only way a closure can signal anything)
    Fail,
    /// `set_params` only: store the new parameters, then fail
    FailAfterMutate,
    /// the call succeeds but cell (index mod len) holds a non-finite value
    NonFinite(BadValue, usize),
    /// builder closures only: return a vector of exactly this length
    WrongLen(usize),
}

#[derive(Clone, Copy, Debug, PartialEq, Serialize, Deserialize)]
pub enum Persist {
    /// only the selected call
    Once,
    /// the selected call and every later model call of any kind
    Forever,
    /// the selected call and the next b-1 model calls of any kind, then the model heals
    Burst(u32),
}

/// Logical trigger: the n-th (0-based) call of a given kind, or the n-th model call overall.
#[derive(Clone, Copy, Debug, PartialEq, Serialize, Deserialize)]
pub enum Trigger {
    Kind(CallKind, u32),
    Global(u64),
}

#[derive(Clone, Copy, Debug, PartialEq, Serialize, Deserialize)]
pub struct FaultRule {
    pub trigger: Trigger,
    pub action: FaultAction,
    pub persist: Persist,
}

#[derive(Clone, Debug, PartialEq, Serialize, Deserialize)]
pub struct OptCfg {
    pub patience: usize,
    pub ftol: Option<Fx>,
    pub xtol: Option<Fx>,
    pub gtol: Option<Fx>,
    pub stepbound: Option<Fx>,
    pub scale_diag: bool,
}

impl Default for OptCfg {
    fn default() -> Self {
        OptCfg {
            patience: 100,
            ftol: None,
            xtol: None,
            gtol: None,
            stepbound: None,
            scale_diag: true,
        }
    }
}

#[derive(Clone, Debug, PartialEq, Serialize, Deserialize)]
pub enum Op {
    SetParams(Vec<Fx>),
    Residuals,
    Jacobian,
    Coefficients,
    Params,
    WeightedData,
    /// clone the problem, query the clone, compare with the original (hand-written models)
    CloneAndCompare,
    /// convert to the sequential flavour and continue with the converted problem
    IntoSequential,
    /// `LevMarSolver::fit`
    Fit,
    /// `LevMarSolver::fit_with_statistics` (single rhs only)
    FitWithStatistics,
    /// confidence band at probability p on the statistics of the last fit
    Band(Fx),
    /// builder-made model, called on the bare model: `set_params` with this many entries
    ModelSetParams(Vec<Fx>),
    ModelEval,
    ModelDeriv(usize),
    /// `into_parallel()` and continue with whatever flavour the library returns
    IntoParallel,
    /// this many caller threads query the shared problem (`&self`: residuals, coefficients,
    /// Jacobian) at the same time; in overlap mode they are shuttle threads interleaved at the
    /// model seam by the seeded scheduler, otherwise the queries run one after the other
    ConcurrentQueries(u8),
    /// query the accessors of the `FitResult` returned by the last fit again (the problem
    /// inside it may have been updated since through the public `problem` field)
    ResultView,
    /// `count` successful parameter updates in a row on the one problem object, cycling through
    /// `alphas` (state that only matters after very many operations: counters, ring buffers,
    /// histories with a capacity)
    Marathon { count: u32, alphas: Vec<Vec<Fx>> },
}

/// one decision of the simulated work-stealing pool per `join`
#[derive(Clone, Copy, Debug, PartialEq, Eq, Serialize, Deserialize, PartialOrd, Ord, Hash)]
pub enum JoinOutcome {
    /// b not stolen: a then b on the caller
    Inline,
    /// b stolen, finishes after a
    StolenLate,
    /// b stolen, finishes before a starts being observed: b (migrated) then a
    StolenEarly,
    /// b stolen and genuinely overlapped with a (shuttle threads)
    Overlap,
}

#[derive(Clone, Debug, PartialEq, Serialize, Deserialize)]
pub struct SchedSpec {
    /// simulated pool size reported to rayon's splitter
    pub pool: usize,
    /// whether the outermost join was injected from outside the pool
    pub injected: bool,
    /// seed of the tape that decides every join outcome
    pub tape_seed: u64,
    /// probabilities (inline, late, early, overlap); overlap is only honoured in overlap mode
    pub mix: [Fx; 4],
    /// run the parallel Jacobians under shuttle with truly overlapped arms
    pub overlap: bool,
    pub shuttle_seed: u64,
}

impl SchedSpec {
    pub fn sequentialish() -> Self {
        SchedSpec {
            pool: 1,
            injected: false,
            tape_seed: 0,
            mix: [Fx(1.0), Fx(0.0), Fx(0.0), Fx(0.0)],
            overlap: false,
            shuttle_seed: 0,
        }
    }
}

#[derive(Clone, Debug, PartialEq, Serialize, Deserialize)]
pub struct Scenario {
    pub property: String,
    /// provenance only: the seed and run index this scenario was generated from
    pub seed: u64,
    pub index: u64,
    /// sub-variant selector of the property's driver (e.g. "far" / "hostile")
    pub variant: String,
    pub width: Width,
    pub parallel: bool,
    pub mrhs: bool,
    pub model: ModelSpec,
    pub x: Vec<Fx>,
    /// observations, one inner vector per right-hand side (column)
    pub y: Vec<Vec<Fx>>,
    pub weights: Option<Vec<Fx>>,
    pub eps: Option<Fx>,
    pub alpha0: Vec<Fx>,
    pub opt: OptCfg,
    pub ops: Vec<Op>,
    pub faults: Vec<FaultRule>,
    pub sched: SchedSpec,
    /// byte every fresh heap block is filled with
    pub heap_fill: u8,
    /// order of the problem builder's setter calls (permutation index 0..6 of
    /// observations / weights / epsilon)
    #[serde(default)]
    pub builder_order: u8,
}

impl Scenario {
    pub fn n(&self) -> usize {
        self.x.len()
    }
    pub fn s(&self) -> usize {
        self.y.len()
    }
    pub fn to_json(&self) -> String {
        serde_json::to_string(self).expect("scenario serialises")
    }
    pub fn from_json(s: &str) -> Result<Self, String> {
        serde_json::from_str(s).map_err(|e| e.to_string())
    }
}
