//! The only source of randomness in the simulator: SplitMix64 seeding a xoshiro256**.
//! Every choice of a run (scenario shape, data, operation script, fault plan, optimizer
//! knobs, schedule tape, heap fill) is a draw from one `Rng` derived from
//! `(VERIF_SEED, property, run index)`.

#[derive(Clone, Debug)]
pub struct Rng {
    s: [u64; 4],
    /// number of draws so far (recorded for the evidence, never used for decisions)
    pub draws: u64,
}

#[inline]
pub fn splitmix(state: &mut u64) -> u64 {
    *state = state.wrapping_add(0x9E37_79B9_7F4A_7C15);
    let mut z = *state;
    z = (z ^ (z >> 30)).wrapping_mul(0xBF58_476D_1CE4_E5B9);
    z = (z ^ (z >> 27)).wrapping_mul(0x94D0_49BB_1331_11EB);
    z ^ (z >> 31)
}

/// mix (seed, stream tag, run index) into one 64-bit seed
pub fn mix(seed: u64, tag: &str, idx: u64) -> u64 {
    let mut h = seed ^ 0xA076_1D64_78BD_642F;
    for b in tag.bytes() {
        h = (h ^ b as u64).wrapping_mul(0x0000_0100_0000_01B3);
        let mut t = h;
        h = splitmix(&mut t);
    }
    let mut t = h ^ idx.wrapping_mul(0xD6E8_FEB8_6659_FD93);
    splitmix(&mut t)
}

impl Rng {
    pub fn new(seed: u64) -> Self {
        let mut st = seed;
        let s = [
            splitmix(&mut st),
            splitmix(&mut st),
            splitmix(&mut st),
            splitmix(&mut st),
        ];
        Rng { s, draws: 0 }
    }

    /// an independent stream derived from this one (consumes one draw)
    pub fn fork(&mut self) -> Rng {
        Rng::new(self.next_u64())
    }

    #[inline]
    pub fn next_u64(&mut self) -> u64 {
        self.draws += 1;
        let s = &mut self.s;
        let result = s[1].wrapping_mul(5).rotate_left(7).wrapping_mul(9);
        let t = s[1] << 17;
        s[2] ^= s[0];
        s[3] ^= s[1];
        s[1] ^= s[2];
        s[0] ^= s[3];
        s[2] ^= t;
        s[3] = s[3].rotate_left(45);
        result
    }

    /// uniform in 0..n (n > 0)
    #[inline]
    pub fn below(&mut self, n: u64) -> u64 {
        debug_assert!(n > 0);
        // multiply-shift; bias is irrelevant at our n
        ((self.next_u64() as u128 * n as u128) >> 64) as u64
    }

    #[inline]
    pub fn usize_in(&mut self, lo: usize, hi_incl: usize) -> usize {
        lo + self.below((hi_incl - lo + 1) as u64) as usize
    }

    /// uniform in [0,1)
    #[inline]
    pub fn unit(&mut self) -> f64 {
        (self.next_u64() >> 11) as f64 * (1.0 / (1u64 << 53) as f64)
    }

    #[inline]
    pub fn range(&mut self, lo: f64, hi: f64) -> f64 {
        lo + (hi - lo) * self.unit()
    }

    #[inline]
    pub fn chance(&mut self, p: f64) -> bool {
        self.unit() < p
    }

    pub fn pick<'a, T>(&mut self, xs: &'a [T]) -> &'a T {
        &xs[self.below(xs.len() as u64) as usize]
    }

    /// log-uniform magnitude in [10^lo, 10^hi]
    pub fn log_uniform(&mut self, lo: f64, hi: f64) -> f64 {
        10f64.powf(self.range(lo, hi))
    }

    /// standard normal (Box-Muller, two draws)
    pub fn normal(&mut self) -> f64 {
        let u1 = (self.unit()).max(1e-300);
        let u2 = self.unit();
        (-2.0 * u1.ln()).sqrt() * (2.0 * std::f64::consts::PI * u2).cos()
    }

    pub fn shuffle<T>(&mut self, xs: &mut [T]) {
        for i in (1..xs.len()).rev() {
            let j = self.below(i as u64 + 1) as usize;
            xs.swap(i, j);
        }
    }

    /// weighted choice; weights need not be normalised
    pub fn weighted(&mut self, ws: &[f64]) -> usize {
        let tot: f64 = ws.iter().sum();
        let mut r = self.unit() * tot;
        for (i, w) in ws.iter().enumerate() {
            if r < *w {
                return i;
            }
            r -= *w;
        }
        ws.len() - 1
    }
}
