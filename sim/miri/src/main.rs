//! vpmiri <c10|c11> <seed> [threads]
//!
//! c10: a tiny seeded history on a sequential problem (builder-made and hand-written model);
//!      every value the problem returns is read (compared with a freshly built problem), so
//!      that miri reports any element that was never written.
//! c11: the same problem in the parallel flavour on the REAL rayon pool (threads given), with
//!      miri's seeded scheduler choosing the interleaving; parallel and sequential results are
//!      compared bitwise (requires -Zmiri-deterministic-floats).
//! Exit code 0 = clean, 1 = mismatch (printed), miri itself aborts on UB.

use levenberg_marquardt::{LeastSquaresProblem, LevenbergMarquardt};
use nalgebra::{DMatrix, DVector, Dyn, OVector};
use varpro::model::builder::SeparableModelBuilder;
use varpro::model::SeparableModel;
use varpro::prelude::SeparableNonlinearModel;
use varpro::solvers::levmar::{LevMarProblemBuilder, LevMarSolver};

struct Rng(u64);
impl Rng {
    fn next(&mut self) -> u64 {
        self.0 = self.0.wrapping_add(0x9E37_79B9_7F4A_7C15);
        let mut z = self.0;
        z = (z ^ (z >> 30)).wrapping_mul(0xBF58_476D_1CE4_E5B9);
        z = (z ^ (z >> 27)).wrapping_mul(0x94D0_49BB_1331_11EB);
        z ^ (z >> 31)
    }
    fn unit(&mut self) -> f64 {
        (self.next() >> 11) as f64 / (1u64 << 53) as f64
    }
    fn range(&mut self, a: f64, b: f64) -> f64 {
        a + (b - a) * self.unit()
    }
}

/// hand-written model: exp(-x/t1), exp(-x/t2) [, exp(-x/t3)], 1
#[derive(Clone)]
struct Hand {
    x: DVector<f64>,
    p: DVector<f64>,
}

#[derive(Debug)]
struct NoErr;
impl std::fmt::Display for NoErr {
    fn fmt(&self, f: &mut std::fmt::Formatter<'_>) -> std::fmt::Result {
        write!(f, "never")
    }
}
impl std::error::Error for NoErr {}

impl SeparableNonlinearModel for Hand {
    type ScalarType = f64;
    type Error = NoErr;
    fn parameter_count(&self) -> usize {
        self.p.len()
    }
    fn base_function_count(&self) -> usize {
        self.p.len() + 1
    }
    fn output_len(&self) -> usize {
        self.x.len()
    }
    fn set_params(&mut self, p: OVector<f64, Dyn>) -> Result<(), NoErr> {
        self.p = p;
        Ok(())
    }
    fn params(&self) -> OVector<f64, Dyn> {
        self.p.clone()
    }
    fn eval(&self) -> Result<DMatrix<f64>, NoErr> {
        let n = self.x.len();
        let k = self.p.len();
        let mut m = DMatrix::zeros(n, k + 1);
        for j in 0..k {
            for i in 0..n {
                m[(i, j)] = (-self.x[i] / self.p[j]).exp();
            }
        }
        for i in 0..n {
            m[(i, k)] = 1.0;
        }
        Ok(m)
    }
    fn eval_partial_deriv(&self, d: usize) -> Result<DMatrix<f64>, NoErr> {
        let n = self.x.len();
        let k = self.p.len();
        let mut m = DMatrix::zeros(n, k + 1);
        for i in 0..n {
            m[(i, d)] = (-self.x[i] / self.p[d]).exp() * self.x[i] / (self.p[d] * self.p[d]);
        }
        Ok(m)
    }
}

fn builder_model(x: DVector<f64>, p: &[f64]) -> SeparableModel<f64> {
    let names: Vec<String> = (0..p.len()).map(|i| format!("t{i}")).collect();
    let mut b = SeparableModelBuilder::<f64>::new(names.clone());
    for nme in &names {
        b = b
            .function([nme.clone()], |x: &DVector<f64>, t: f64| x.map(|x| (-x / t).exp()))
            .partial_deriv(nme.clone(), |x: &DVector<f64>, t: f64| {
                x.map(|x| (-x / t).exp() * x / (t * t))
            });
    }
    b.invariant_function(|x: &DVector<f64>| x.map(|_| 1.0))
        .independent_variable(x)
        .initial_parameters(p.to_vec())
        .build()
        .unwrap()
}

fn bits(v: &[f64]) -> Vec<u64> {
    v.iter().map(|x| x.to_bits()).collect()
}

/// two flavours of the same computation: equal up to rounding (a refactoring of one flavour may
/// legitimately change its last bits); a column computed from the wrong derivative or never
/// written differs by orders of magnitude more. Presence must agree exactly.
fn close(a: &Option<Vec<u64>>, b: &Option<Vec<u64>>) -> bool {
    match (a, b) {
        (None, None) => true,
        (Some(x), Some(y)) => {
            if x == y {
                return true;
            }
            if x.len() != y.len() {
                return false;
            }
            let fx: Vec<f64> = x.iter().map(|v| f64::from_bits(*v)).collect();
            let fy: Vec<f64> = y.iter().map(|v| f64::from_bits(*v)).collect();
            let scale = fx.iter().chain(fy.iter()).filter(|v| v.is_finite()).fold(0.0f64, |m, v| m.max(v.abs()));
            fx.iter().zip(fy.iter()).all(|(p, q)| p == q || (p.is_nan() && q.is_nan()) || (p - q).abs() <= 1e-7 * scale + 1e-300)
        }
        _ => false,
    }
}

struct Obs {
    r: Option<Vec<u64>>,
    c: Option<Vec<u64>>,
    j: Option<Vec<u64>>,
}

fn observe<P: LeastSquaresProblem<f64, Dyn, Dyn>>(p: &P) -> (Option<Vec<u64>>, Option<Vec<u64>>)
where
    P::ResidualStorage: nalgebra::RawStorage<f64, Dyn>,
    P::JacobianStorage: nalgebra::RawStorage<f64, Dyn, Dyn>,
{
    let r = p.residuals().map(|r| r.iter().map(|x| x.to_bits()).collect());
    let j = p.jacobian().map(|j| j.iter().map(|x| x.to_bits()).collect());
    (r, j)
}

fn main() {
    let args: Vec<String> = std::env::args().collect();
    let mode = args.get(1).map(|s| s.as_str()).unwrap_or("c10").to_string();
    let seed: u64 = args.get(2).and_then(|s| s.parse().ok()).unwrap_or(1);
    let threads: usize = args.get(3).and_then(|s| s.parse().ok()).unwrap_or(3);
    let mut rng = Rng(seed.wrapping_mul(0x2545_F491_4F6C_DD1D) ^ 0xABCD);
    let p_count = 2 + (rng.next() % 2) as usize; // 2 or 3 nonlinear parameters
    let n = p_count + 3 + (rng.next() % 3) as usize;
    let s = 1 + (rng.next() % 2) as usize;
    let x = DVector::from_iterator(n, (0..n).map(|i| i as f64 * 0.7));
    let truth: Vec<f64> = (0..p_count).map(|k| 1.0 + 2.5 * k as f64 + rng.range(0.0, 0.5)).collect();
    let start: Vec<f64> = truth.iter().map(|t| t * rng.range(0.8, 1.25)).collect();
    let y = DMatrix::from_fn(n, s, |i, c| {
        let mut v = 0.3;
        for (k, t) in truth.iter().enumerate() {
            v += (1.0 + k as f64 + c as f64) * (-x[i] / t).exp();
        }
        v + 0.01 * rng.range(-1.0, 1.0)
    });
    let w = DVector::from_iterator(n, (0..n).map(|_| rng.range(0.5, 2.0)));
    let updates: Vec<Vec<f64>> = (0..3)
        .map(|_| start.iter().map(|t| t * rng.range(0.7, 1.4)).collect())
        .collect();
    let lm = LevenbergMarquardt::new().with_patience(2);
    let mut bad = false;
    match mode.as_str() {
        "c10" => {
            // history-laden problem vs fresh problem, builder-made and hand-written
            for builder in [true, false] {
                macro_rules! go {
                    ($mk:expr) => {{
                        let mut prob = LevMarProblemBuilder::mrhs($mk(&start))
                            .observations(y.clone())
                            .weights(w.clone())
                            .build()
                            .unwrap();
                        for u in &updates {
                            prob.set_params(&DVector::from_vec(u.clone()));
                            let (r, j) = observe(&prob);
                            let fresh = LevMarProblemBuilder::mrhs($mk(u))
                                .observations(y.clone())
                                .weights(w.clone())
                                .build()
                                .unwrap();
                            let (rf, jf) = observe(&fresh);
                            let c = prob.linear_coefficients().map(|c| bits(c.clone_owned().as_slice()));
                            let cf = fresh.linear_coefficients().map(|c| bits(c.clone_owned().as_slice()));
                            if r != rf || j != jf || c != cf {
                                println!("MISMATCH history vs fresh (builder={builder})");
                                bad = true;
                            }
                            let _ = Obs { r, c, j };
                        }
                        // two callers query the shared problem at the same time (real threads
                        // under miri's seeded scheduler): no data race, same values as alone
                        let alone = observe(&prob);
                        let (o1, o2) = std::thread::scope(|sc| {
                            let h = sc.spawn(|| observe(&prob));
                            let mine = observe(&prob);
                            (mine, h.join().unwrap())
                        });
                        if o1 != alone || o2 != alone {
                            println!("MISMATCH concurrent callers vs lone caller (builder={builder})");
                            bad = true;
                        }
                        // a short fit in between, then read everything again
                        let res = LevMarSolver::with_solver(lm).fit(prob);
                        let fr = match res {
                            Ok(f) => f,
                            Err(f) => f,
                        };
                        let (r, j) = observe(&fr.problem);
                        let checksum: u64 = r.iter().flatten().chain(j.iter().flatten()).fold(0, |a, b| a ^ b);
                        std::hint::black_box(checksum);
                        if let Some(bf) = fr.best_fit() {
                            std::hint::black_box(bits(bf.as_slice()));
                        }
                    }};
                }
                if builder {
                    go!(|p: &Vec<f64>| builder_model(x.clone(), p));
                } else {
                    go!(|p: &Vec<f64>| Hand { x: x.clone(), p: DVector::from_vec(p.clone()) });
                }
            }
        }
        "c11" => {
            rayon::ThreadPoolBuilder::new()
                .num_threads(threads)
                .build_global()
                .unwrap();
            let mk = |p: &Vec<f64>| Hand { x: x.clone(), p: DVector::from_vec(p.clone()) };
            let mut par = LevMarProblemBuilder::mrhs_parallel(mk(&start))
                .observations(y.clone())
                .weights(w.clone())
                .build()
                .unwrap();
            let mut seq = LevMarProblemBuilder::mrhs(mk(&start))
                .observations(y.clone())
                .weights(w.clone())
                .build()
                .unwrap();
            let mut bitwise = true;
            for u in &updates {
                let v = DVector::from_vec(u.clone());
                par.set_params(&v);
                seq.set_params(&v);
                let (rp, jp) = observe(&par);
                let (rs, js) = observe(&seq);
                if !close(&rp, &rs) || !close(&jp, &js) {
                    println!("MISMATCH parallel vs sequential at {:?}", u);
                    bad = true;
                }
                if rp != rs || jp != js {
                    bitwise = false;
                }
                // twice: schedule independence of the same parallel problem
                let (_, jp2) = observe(&par);
                if jp2 != jp {
                    println!("MISMATCH parallel Jacobian differs between two calls");
                    bad = true;
                }
            }
            // two callers query the shared parallel problem at the same time: both column
            // loops run on the same real pool
            let alone = observe(&par);
            let (o1, o2) = std::thread::scope(|sc| {
                let h = sc.spawn(|| observe(&par));
                let mine = observe(&par);
                (mine, h.join().unwrap())
            });
            if o1 != alone || o2 != alone {
                println!("MISMATCH concurrent callers vs lone caller on the parallel problem");
                bad = true;
            }
            let fp = match LevMarSolver::with_solver(lm).fit(par) {
                Ok(f) => f,
                Err(f) => f,
            };
            let fs = match LevMarSolver::with_solver(lm).fit(seq) {
                Ok(f) => f,
                Err(f) => f,
            };
            // two optimizers fed Jacobians that differ in the last bits may legitimately take
            // different paths: the fits are compared only while everything was bitwise equal
            if bitwise
                && (bits(fp.nonlinear_parameters().as_slice()) != bits(fs.nonlinear_parameters().as_slice())
                    || fp.minimization_report.number_of_evaluations != fs.minimization_report.number_of_evaluations)
            {
                println!("MISMATCH fits differ between parallel and sequential");
                bad = true;
            }
        }
        "c10c" => {
            // concurrent callers only, to be run with a HIGH preemption rate: three caller threads
            // query one sequential problem (hand-written and builder-made model) twice each while
            // miri's seeded scheduler preempts them inside the library's own arithmetic - the
            // granularity the simulated callers (interleaved at model calls) cannot reach
            let ns = n.min(5);
            let xs = DVector::from_iterator(ns, (0..ns).map(|i| i as f64 * 0.7));
            let ys = DVector::from_iterator(ns, (0..ns).map(|i| y[(i, 0)]));
            let ws = DVector::from_iterator(ns, (0..ns).map(|i| w[i]));
            for builder in [false, true] {
                macro_rules! go {
                    ($mk:expr) => {{
                        let prob = LevMarProblemBuilder::new($mk(&start))
                            .observations(ys.clone())
                            .weights(ws.clone())
                            .build()
                            .unwrap();
                        let alone = observe(&prob);
                        let outs = std::thread::scope(|sc| {
                            let hs: Vec<_> = (0..2).map(|_| sc.spawn(|| (observe(&prob), observe(&prob)))).collect();
                            let mine = (observe(&prob), observe(&prob));
                            let mut v = vec![mine];
                            v.extend(hs.into_iter().map(|h| h.join().unwrap()));
                            v
                        });
                        for (a, b) in outs {
                            if a != alone || b != alone {
                                println!("MISMATCH concurrent callers vs lone caller (c10c, builder={builder})");
                                bad = true;
                            }
                        }
                    }};
                }
                if builder {
                    go!(|p: &Vec<f64>| builder_model(xs.clone(), p));
                } else {
                    go!(|p: &Vec<f64>| Hand { x: xs.clone(), p: DVector::from_vec(p.clone()) });
                }
            }
        }
        "c11c" => {
            // the real pool with FEWER threads than Jacobian columns (five parameters, two or
            // three workers), to be run with a high preemption rate: several column tasks per
            // worker, so that per-worker state (scratch slots, flags, cursors) is shared between
            // columns and miri's scheduler can interleave their steps inside the library's own
            // arithmetic; every parallel Jacobian must equal the sequential one (up to rounding)
            rayon::ThreadPoolBuilder::new().num_threads(threads.min(3)).build_global().unwrap();
            let pc = 5usize;
            let nn = 7usize;
            let xs = DVector::from_iterator(nn, (0..nn).map(|i| 0.3 + i as f64 * 0.7));
            let ps: Vec<f64> = (0..pc).map(|k| 0.8 + 1.3 * k as f64 + rng.range(0.0, 0.4)).collect();
            let ys = DVector::from_iterator(nn, (0..nn).map(|i| {
                let mut v = 0.2;
                for (k, t) in ps.iter().enumerate() {
                    v += (1.0 + k as f64) * (-xs[i] / t).exp();
                }
                v + 0.01 * rng.range(-1.0, 1.0)
            }));
            let mk = |p: &Vec<f64>| Hand { x: xs.clone(), p: DVector::from_vec(p.clone()) };
            let mut par = LevMarProblemBuilder::new_parallel(mk(&ps)).observations(ys.clone()).build().unwrap();
            let mut seq = LevMarProblemBuilder::new(mk(&ps)).observations(ys.clone()).build().unwrap();
            for round in 0..4 {
                let v = DVector::from_vec(ps.iter().map(|t| t * (1.0 + 0.03 * round as f64)).collect::<Vec<f64>>());
                par.set_params(&v);
                seq.set_params(&v);
                let (rp, jp) = observe(&par);
                let (rs, js) = observe(&seq);
                if !close(&rp, &rs) || !close(&jp, &js) {
                    println!("MISMATCH parallel vs sequential (c11c, round {round})");
                    bad = true;
                }
            }
        }
        _ => {
            eprintln!("usage: vpmiri c10|c10c|c11|c11c <seed> [threads]");
            std::process::exit(2);
        }
    }
    if bad {
        std::process::exit(1);
    }
    println!("clean mode={mode} seed={seed} N={n} S={s} P={p_count}");
}
