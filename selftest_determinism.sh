#!/bin/sh
# Determinism self-test (development aid, DESIGN.md section 8): for every claimed property
# the per-run digests (everything observable in a run + the model-seam event log) of N seeded
# runs must be identical between (a) one process executing all N runs, (b) a second such
# process, (c) 16 processes executing N/16-run slices concurrently, and (d) a different seed
# must give different digests. Usage: ./selftest_determinism.sh [N] [seed]
N="${1:-2000}"; SEED="${2:-1}"
ROOT="$(cd "$(dirname "$0")" && pwd)"
BIN="$ROOT/sim/target/checked/vpsim"
(cd "$ROOT/sim" && cargo build --offline --profile checked >/dev/null 2>&1) || { echo "build failed"; exit 2; }
TMP="$(mktemp -d)"; trap 'rm -rf "$TMP"' EXIT
rc=0
for P in C02 C04 C06 C08 C09 C10 C11 C12 C17; do
    n=$N; case $P in C09|C12|C17) n=$((N/10));; esac
    "$BIN" digest $P quick $SEED 0 $n > "$TMP/a" 2>/dev/null
    "$BIN" digest $P quick $SEED 0 $n > "$TMP/b" 2>/dev/null
    sl=$(( (n + 15) / 16 )); : > "$TMP/c"
    for k in $(seq 0 15); do
        st=$((k*sl)); ct=$sl; [ $((st+ct)) -gt $n ] && ct=$((n-st)); [ $ct -le 0 ] && continue
        "$BIN" digest $P quick $SEED $st $ct > "$TMP/c.$k" 2>/dev/null &
    done
    wait
    for k in $(seq 0 15); do [ -f "$TMP/c.$k" ] && cat "$TMP/c.$k" >> "$TMP/c"; done
    "$BIN" digest $P quick $((SEED+1)) 0 $n > "$TMP/d" 2>/dev/null
    la=$(wc -l < "$TMP/a")
    if cmp -s "$TMP/a" "$TMP/b" && cmp -s "$TMP/a" "$TMP/c" && [ "$la" -eq "$n" ]; then
        same=$(paste "$TMP/a" "$TMP/d" | awk '$2==$7' | wc -l)
        echo "$P: $n runs identical across 2 single processes and 16 concurrent slices; other seed shares $same/$n digests"
    else
        echo "$P: DIGESTS DIFFER (lines a=$la)"; diff "$TMP/a" "$TMP/b" | head -3; diff "$TMP/a" "$TMP/c" | head -3; rc=1
    fi
    rm -f "$TMP"/c.*
done
exit $rc
