#!/bin/sh
# Development aid (not registered in MANIFEST.json): measure which lines of /repo/src the
# simulated workloads of the claimed properties reach. Builds an instrumented vpsim with the
# nightly toolchain (which ships llvm-profdata / llvm-cov) in a scratch target directory,
# runs every claimed property with a reduced run count, and writes
#   results/coverage_summary.txt   per-file line / region coverage of /repo/src
#   results/coverage_uncovered.txt the uncovered source lines of /repo/src (with context)
# usage: ./coverage.sh [runs-per-property] [IDs...]
set -eu
ROOT="$(cd "$(dirname "$0")" && pwd)"
RUNS="${1:-4000}"; [ $# -gt 0 ] && shift
IDS="${*:-C02 C04 C06 C08 C09 C10 C11 C12 C17}"
TD=/tmp/vpsim-cov-target
PD=/tmp/vpsim-cov-prof
TOOLS="$(dirname "$(rustup which --toolchain nightly rustc)")/../lib/rustlib/x86_64-unknown-linux-gnu/bin"
rm -rf "$PD"; mkdir -p "$PD" "$ROOT/results"
export CARGO_NET_OFFLINE=true VERIF_ROOT="$ROOT"
# LLVM_PROFILE_FILE is set for the build too: instrumented build scripts and proc macros would
# otherwise drop default_*.profraw files into the package directories (/repo included)
(cd "$ROOT/sim" && LLVM_PROFILE_FILE="$PD/build-%p-%m.profraw.ignore" RUSTFLAGS="-C instrument-coverage" CARGO_TARGET_DIR="$TD" cargo +nightly build --offline --profile checked 2>&1 | tail -3)
BIN="$TD/checked/vpsim"
# scratch root: evidence and replays of these reduced runs must not touch the committed ones
mkdir -p "$PD/root/sim/target/release" "$PD/root/evidence" "$PD/root/replays"
cp "$ROOT/known_findings.json" "$PD/root/"; cp -r "$ROOT/findings" "$PD/root/"
[ -x "$ROOT/sim/target/release/vpsim" ] || (cd "$ROOT/sim" && cargo build --offline --release >/dev/null 2>&1)
ln -s "$ROOT/sim/target/release/vpsim" "$PD/root/sim/target/release/vpsim"
for id in $IDS; do
    n="$RUNS"; [ "$id" = C09 ] && n=$((RUNS / 10))   # C09 re-executes every run once per call position
    VERIF_ROOT="$PD/root" LLVM_PROFILE_FILE="$PD/$id-%p-%m.profraw" "$BIN" check "$id" quick --runs "$n" 2>&1 | grep -E "^done" || true
done
"$TOOLS/llvm-profdata" merge -sparse "$PD"/*.profraw -o "$PD/all.profdata"
"$TOOLS/llvm-cov" report "$BIN" -instr-profile="$PD/all.profdata" $(find /repo/src -name '*.rs' ! -path '*/test*') >"$ROOT/results/coverage_summary.txt" 2>/dev/null
"$TOOLS/llvm-cov" show "$BIN" -instr-profile="$PD/all.profdata" -show-line-counts-or-regions $(find /repo/src -name '*.rs' ! -path '*/test*') 2>/dev/null \
    | grep -E '^(/repo/src.*:$| +[0-9]+\| +0\|)' >"$ROOT/results/coverage_uncovered.txt" || true
cat "$ROOT/results/coverage_summary.txt"
rm -rf "$PD" "$TD"
