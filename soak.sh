#!/bin/sh
# Development aid for `vp run --with-repo`: soak the checks of this snapshot of /verif against a
# *snapshot* of /repo ($VP_RUN_REPO), so that patches applied to /repo meanwhile (mutant runs)
# cannot leak into the soak. Only the copy of the shadow manifests inside the snapshot is edited.
#   vp run --with-repo -- ./soak.sh <tier> <seed>... 
TIER="$1"; shift
R="${VP_RUN_REPO:-/repo}"
sed -i "s#path = \"/repo\"#path = \"$R\"#" sim/Cargo.toml sim/miri/Cargo.toml
nice -n 10 ./check --setup >/dev/null 2>&1 || { echo "setup failed"; exit 2; }
for s in "$@"; do
  for id in C02 C04 C06 C08 C09 C10 C11 C12 C17; do
    echo "== seed $s $id $(date +%T)"
    VERIF_SEED=$s nice -n 10 ./check $id $TIER 2>&1 | grep -E "^(VIOLATION|KNOWN|HARNESS|done:|  class=|note:)" | cut -c1-260
  done
done
echo "soak finished $(date +%T)"
