#!/bin/sh
# Development aid: re-run, for every seeded change under /verif/seeded, the quick check of the
# property it was written against (patch applied to /repo, always undone). One line per change.
cd /repo || exit 2
if [ -n "$(git status --porcelain --untracked-files=no)" ]; then echo "/repo is dirty"; exit 2; fi
for d in /verif/seeded/*/; do
    n=$(basename "$d"); id=${n%%-*}
    git apply "$d/patch.diff" || { echo "$n: patch does not apply"; continue; }
    out=$(cd /verif && VPSIM_HANG_SECS=8 ./check "$id" quick 2>&1); code=$?
    cls=$(echo "$out" | grep -E "^  class=" | sed -E 's/^  class=([A-Z_]+) site=([^ ]+).*/\1@\2/' | sort -u | head -3 | tr '\n' ',')
    git checkout -- .
    echo "$n: $id exit=$code [$cls]"
done
# rebuild from the restored tree: the binaries under sim/target must never be left holding a mutant
# (VPSIM_NO_BUILD=1 runs would silently use them)
cd /repo && git checkout -- . ; (cd /verif && ./check --setup >/dev/null 2>&1)
