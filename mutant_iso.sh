#!/bin/sh
# Development aid: like mutant_matrix.sh, but isolated — the patch is applied to a scratch worktree of
# /repo and the checks run from a scratch copy of /verif whose shadow manifests point at that worktree,
# so that /repo and /verif/sim/target stay usable meanwhile. One line per patch.
#   ./mutant_iso.sh <slot> <patch.diff>... [-- ID ...]      (slot: a name; slots can run side by side)
# VERIF_SRC=<dir>: take the machinery from another checkout of /verif (e.g. an earlier commit).
# The final regression of record (regress_seeded.sh) still applies every patch to /repo itself.
SLOT="$1"; shift
PATCHES=""; IDS=""
while [ $# -gt 0 ]; do
    if [ "$1" = "--" ]; then shift; IDS="$*"; break; fi
    PATCHES="$PATCHES $(readlink -f "$1")"; shift
done
IDS="${IDS:-C02 C04 C06 C08 C09 C10 C11 C12 C17}"
BASE=/tmp/vpm/$SLOT; R=$BASE/repo; V=$BASE/verif
mkdir -p "$BASE"
[ -d "$R" ] || git -C /repo worktree add --detach "$R" HEAD >/dev/null 2>&1 || exit 2
git -C "$R" checkout -q --detach "$(git -C /repo rev-parse HEAD)" && git -C "$R" checkout -- . && git -C "$R" clean -fdq
mkdir -p "$V"
rsync -a --delete --exclude /sim/target --exclude /.git --exclude /replays --exclude /seeded --exclude /results --exclude /scratch "${VERIF_SRC:-/verif}"/ "$V"/
sed -i "s#path = \"/repo\"#path = \"$R\"#" "$V/sim/Cargo.toml" "$V/sim/miri/Cargo.toml"
for d in $PATCHES; do
    n=$(basename "$(dirname "$d")")-$(basename "$d" .diff)
    git -C "$R" checkout -- . ; git -C "$R" apply "$d" || { echo "$n: patch does not apply"; continue; }
    line="$n:"
    for id in $IDS; do
        out=$(cd "$V" && VPSIM_HANG_SECS=8 ./check "$id" quick 2>&1); code=$?
        cls=$(echo "$out" | grep -E "^  class=" | sed -E 's/^  class=([A-Z_]+) site=([^ ]+).*/\1@\2/' | sort -u | head -4 | tr '\n' ',' )
        line="$line $id=$code[$cls]"
    done
    git -C "$R" checkout -- .
    echo "$line"
done
