#!/bin/sh
# Development aid: run every quick check against every patch in a directory; one line per (mutant, check).
#   ./mutant_matrix.sh <dir-with-diffs> [ID ...]
DIR="$(readlink -f "$1")"; shift
IDS="${*:-C02 C04 C06 C08 C09 C10 C11 C12 C17}"
for d in "$DIR"/*.diff; do
    n=$(basename "$d" .diff)
    cd /repo || exit 2
    if [ -n "$(git status --porcelain --untracked-files=no)" ]; then echo "/repo is dirty"; exit 2; fi
    git apply "$d" || { echo "$n: patch does not apply"; continue; }
    line="$n:"
    for id in $IDS; do
        out=$(cd /verif && VPSIM_HANG_SECS=8 ./check "$id" quick 2>&1); code=$?
        cls=$(echo "$out" | grep -E "^  class=" | sed -E 's/^  class=([A-Z_]+) site=([^ ]+).*/\1@\2/' | sort -u | head -4 | tr '\n' ',' )
        line="$line $id=$code[$cls]"
    done
    cd /repo && git checkout -- .
    echo "$line"
done
# rebuild from the restored tree: the binaries under sim/target must never be left holding a mutant
# (VPSIM_NO_BUILD=1 runs would silently use them)
cd /repo && git checkout -- . ; (cd /verif && ./check --setup >/dev/null 2>&1)
