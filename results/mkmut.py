#!/usr/bin/env python3
"""Development aid: create hand-made mutants of /repo as patch files under /verif/scratch/mut.
Each entry: name, file, (old, new, occurrence index or None for unique)."""
import subprocess, sys, os
R='/repo'
M=[
 ("par_no_weights","src/solvers/levmar/mod.rs","let Dk = &self.weights * self.model.eval_partial_deriv(k)?;","let Dk = self.model.eval_partial_deriv(k)?;",1),
 ("seq_deriv_no_weights","src/solvers/levmar/mod.rs","let Dk = &self.weights * self.model.eval_partial_deriv(k)?;","let Dk = self.model.eval_partial_deriv(k)?;",0),
 ("into_seq_drop_cache","src/solvers/levmar/mod.rs","            weights,\n            cached,\n        }\n    }\n\n    /// convert from sequential","            weights,\n            cached: None,\n        }\n    }\n\n    /// convert from sequential",None),
 ("par_partial_jac","src/solvers/levmar/mod.rs","            result.ok()?;","            let _ = result;",1),
 ("seq_partial_jac","src/solvers/levmar/mod.rs","            result.ok()?;","            let _ = result;",0),
 ("fit_ok_on_lost_patience","src/solvers/levmar/mod.rs","        if result.was_successful() {\n            Ok(result)","        if result.was_successful() || format!(\"{:?}\", result.minimization_report.termination) == \"LostPatience\" {\n            Ok(result)",None),
 ("data_weighted_twice","src/solvers/levmar/builder.rs","let Y_w = &weights * Y;","let Y_w = &weights * (&weights * Y);",None),
 ("uninit_jac_cols","src/solvers/levmar/mod.rs","                    copy_matrix_to_column(minus_ak, &mut jacobian_col);","                    if k < 2 {\n                        copy_matrix_to_column(minus_ak, &mut jacobian_col);\n                    }",0),
 ("model_assign_before_check","src/model/mod.rs","        if parameters.len() != self.parameter_count() {\n            return Err(ModelError::IncorrectParameterCount {\n                expected: self.parameter_count(),\n                actual: parameters.len(),\n            });\n        }\n        self.current_parameters = parameters;\n        Ok(())","        let n = parameters.len();\n        self.current_parameters = parameters;\n        if n != self.parameter_count() {\n            return Err(ModelError::IncorrectParameterCount {\n                expected: self.parameter_count(),\n                actual: n,\n            });\n        }\n        Ok(())",None),
 ("drop_len_check","src/model/model_basis_function.rs","if result.len() == location.len() {","if result.len() >= location.len() {",None),
 ("stats_after_failed_fit","src/solvers/levmar/mod.rs","        if !minimization_report.termination.was_successful() {\n            return Err(FitResult::new(problem, minimization_report));\n        }\n","",None),
 ("residual_rowmajor","src/util/mod.rs","    let new_rows = Dyn(mat.nrows() * mat.ncols());\n    mat.reshape_generic(new_rows, U1)","    let new_rows = Dyn(mat.nrows() * mat.ncols());\n    mat.transpose().reshape_generic(new_rows, U1)",None),
 ("cache_kept_on_eval_error","src/solvers/levmar/mod.rs","        } else {\n            self.cached = None;\n        }\n    }","        }\n    }",0),
]
def sh(c): return subprocess.run(c,shell=True,cwd=R,capture_output=True,text=True)
assert sh("git status --porcelain --untracked-files=no").stdout.strip()=="" , "repo dirty"
only=sys.argv[1:] 
for name,f,old,new,occ in M:
    if only and name not in only: continue
    p=os.path.join(R,f); s=open(p).read()
    cnt=s.count(old)
    if cnt==0: print(name,"PATTERN NOT FOUND"); continue
    if occ is None:
        assert cnt==1,(name,cnt); s2=s.replace(old,new)
    else:
        idx=-1
        for _ in range(occ+1): idx=s.index(old,idx+1)
        s2=s[:idx]+new+s[idx+len(old):]
    open(p,'w').write(s2)
    d=sh("git diff").stdout
    b=sh("cargo build --offline --features parallel 2>&1 | grep -E '^error' | head -3").stdout
    t=""
    if not b.strip():
        t=sh("cargo nextest run --workspace --no-fail-fast --offline 2>&1 | grep -E 'Summary|FAIL' | head -3").stdout
    sh("git checkout -- .")
    ok = (not b.strip()) and ("75 passed" in t) and "FAIL" not in t
    print(name, "compiles" if not b.strip() else "BUILD-ERROR "+b.strip()[:200], "| tests:", t.strip().replace("\n"," ; ")[:120], "| KEEP" if ok else "| DROP")
    if ok: open(f"/verif/scratch/mut/{name}.diff","w").write(d)
