#!/usr/bin/env python3
import subprocess, os
R='/repo'
def sh(c): return subprocess.run(c,shell=True,cwd=R,capture_output=True,text=True)
assert sh("git status --porcelain --untracked-files=no").stdout.strip()=="" , "repo dirty"
os.makedirs('/verif/scratch/refactor2',exist_ok=True)
L="src/solvers/levmar/mod.rs"; S="src/statistics/mod.rs"; M_="src/model/mod.rs"
M=[
 ("r6_clear_cache_first", [(L,"        if self.model.set_params(params.clone()).is_err() {\n            // the model did not accept","        self.cached = None;\n        if self.model.set_params(params.clone()).is_err() {\n            // the model did not accept",'all')]),
 ("r7_model_eval_zeros_instead_of_uninit", [(M_,"        let mut function_value_matrix =\n            unsafe { DMatrix::uninit(Dyn(nrows), Dyn(ncols)).assume_init() };","        let mut function_value_matrix =\n            DMatrix::<ScalarType>::from_element(nrows, ncols, Zero::zero());",None)]),
 ("r8_stats_residuals_weights_last", [(S,"let weighted_residuals = weighted_data - weights * model.eval()? * linear_coefficients;","let weighted_residuals = weighted_data - weights * (model.eval()? * linear_coefficients);",None)]),
 ("r9_chi2_by_dot", [(S,"let reduced_chi2 = weighted_residuals.norm_squared()","let reduced_chi2 = weighted_residuals.dot(&weighted_residuals)",None)]),
 ("r10_jacobian_tr_mul_sequential", [(L,"let minus_ak = U * (&U_t * (&Dk_C)) - Dk_C;","let minus_ak = U * U.tr_mul(&Dk_C) - Dk_C;",0)]),
]
for name,edits in M:
    ok=True
    for f,old,new,occ in edits:
        p=os.path.join(R,f); s=open(p).read()
        cnt=s.count(old)
        if cnt<1: print(name,"pattern not found"); ok=False; break
        if occ=='all' or occ is None: s2=s.replace(old,new)
        else:
            idx=-1
            for _ in range(occ+1): idx=s.index(old,idx+1)
            s2=s[:idx]+new+s[idx+len(old):]
        open(p,'w').write(s2)
    if not ok: sh("git checkout -- ."); continue
    d=sh("git diff").stdout
    b=sh("cargo build --offline --features parallel 2>&1 | grep -E '^error' -A5 | head -8").stdout
    t=sh("cargo nextest run --workspace --no-fail-fast --offline 2>&1 | grep -E 'Summary' | head -1").stdout if not b.strip() else ""
    sh("git checkout -- .")
    print(name, "builds" if not b.strip() else "BUILD ERROR "+b[:300], "|", t.strip())
    if not b.strip() and "75 passed" in t: open(f"/verif/scratch/refactor2/{name}.diff","w").write(d)
