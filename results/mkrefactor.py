#!/usr/bin/env python3
"""Development aid: semantics-preserving refactorings of /repo as patches (quietness test)."""
import subprocess, os
R='/repo'
def sh(c): return subprocess.run(c,shell=True,cwd=R,capture_output=True,text=True)
assert sh("git status --porcelain --untracked-files=no").stdout.strip()=="" , "repo dirty"
os.makedirs('/verif/scratch/refactor',exist_ok=True)
F="src/solvers/levmar/mod.rs"
M=[
 ("r1_weights_after_product_both", [(F,"let Dk = &self.weights * self.model.eval_partial_deriv(k)?; // will return none if this could not be calculated\n                    let Dk_C = Dk * linear_coefficients;","let Dk = self.model.eval_partial_deriv(k)?; // will return none if this could not be calculated\n                    let Dk_C = &self.weights * (Dk * linear_coefficients);",'all')]),
 ("r2_projector_assoc_both", [(F,"let minus_ak = U * (&U_t * (&Dk_C)) - Dk_C;","let minus_ak = (U * &U_t) * &Dk_C - Dk_C;",'all')]),
 ("r3_weights_after_product_parallel_only", [(F,"let Dk = &self.weights * self.model.eval_partial_deriv(k)?; // will return none if this could not be calculated\n                    let Dk_C = Dk * linear_coefficients;","let Dk = self.model.eval_partial_deriv(k)?; // will return none if this could not be calculated\n                    let Dk_C = &self.weights * (Dk * linear_coefficients);",1)]),
 ("r4_residual_two_steps", [(F,".map(|(Phi_w, coeff)| &self.Y_w - &Phi_w * coeff);",".map(|(Phi_w, coeff)| {\n                let fitted = &Phi_w * coeff;\n                &self.Y_w - fitted\n            });",'all')]),
 ("r5_projector_assoc_sequential_only", [(F,"let minus_ak = U * (&U_t * (&Dk_C)) - Dk_C;","let minus_ak = (U * &U_t) * &Dk_C - Dk_C;",0)]),
]
for name,edits in M:
    for f,old,new,occ in edits:
        p=os.path.join(R,f); s=open(p).read()
        cnt=s.count(old); assert cnt>=1,(name,cnt)
        if occ=='all': s2=s.replace(old,new)
        else:
            idx=-1
            for _ in range(occ+1): idx=s.index(old,idx+1)
            s2=s[:idx]+new+s[idx+len(old):]
        open(p,'w').write(s2)
    d=sh("git diff").stdout
    b=sh("cargo build --offline --features parallel 2>&1 | grep -E '^error' | head -3").stdout
    t=sh("cargo nextest run --workspace --no-fail-fast --offline 2>&1 | grep -E 'Summary' | head -1").stdout if not b.strip() else ""
    sh("git checkout -- .")
    print(name, "builds" if not b.strip() else "BUILD ERROR "+b[:200], "|", t.strip())
    if not b.strip() and "75 passed" in t: open(f"/verif/scratch/refactor/{name}.diff","w").write(d)
