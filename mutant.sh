#!/bin/sh
# Development aid: apply a patch to /repo, run the given checks (quick), always undo.
#   ./mutant.sh <patch.diff> <ID> [<ID> ...]
# Prints one line per check: <ID> exit=<code> and the VIOLATION lines.
PATCH="$(readlink -f "$1")"; shift
cd /repo || exit 2
if [ -n "$(git status --porcelain --untracked-files=no)" ]; then echo "/repo is dirty"; exit 2; fi
git apply "$PATCH" || { echo "patch does not apply"; exit 2; }
trap 'cd /repo && git checkout -- . ' EXIT INT TERM
for id in "$@"; do
    out=$(cd /verif && VPSIM_HANG_SECS=${VPSIM_HANG_SECS:-8} ./check "$id" quick 2>&1)
    code=$?
    echo "== $id exit=$code"
    echo "$out" | grep -E "^(VIOLATION|KNOWN|  class=|HARNESS|done:)" | head -12
done
# rebuild from the restored tree: the binaries under sim/target must never be left holding a mutant
# (VPSIM_NO_BUILD=1 runs would silently use them)
cd /repo && git checkout -- . ; (cd /verif && ./check --setup >/dev/null 2>&1)
