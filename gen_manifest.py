#!/usr/bin/env python3
"""Regenerates MANIFEST.json from the table below (kept in one place so the claimed list,
not_applicable list and commands cannot drift apart)."""
import json, sys

CLAIMED = {
  # id: (category, technique, text, note, design_ref)
  "C02": ("exploration",
          "deterministic simulation: seeded caller- and optimizer-driven operation histories with model failures in between, reference model re-evaluated at the reported parameters",
          "After every operation of a seeded history (updates, queries, weighted-data reads, conversions, fits; transient model failures between good updates) the residual vector must equal, element-wise within a forward-error bound, the column-major stacking of W.Y - (W.Phi_ref(alpha)).C at the alpha the problem reports, with Phi_ref from the simulator's reference mathematics and W.Y formed from the raw inputs; weighted data must equal w*y in the API's shape; best_fit must equal Phi_ref(alpha_hat).C_hat in the shape of the observations; params must be the last vector the model acknowledged (read off the event log). The FitResult is kept after a fit: after further updates of the problem inside it (public field) its accessors nonlinear_parameters / linear_coefficients / best_fit are asked again and must describe that state. Builder setter calls are permuted and sometimes repeated. One scenario in 400 is 'giant' in one dimension (65-80 parameters, 11-130 right-hand sides incl. exact multiples of 16/32/64, up to 70 000 samples incl. exact multiples of 4096). Non-trivial weights and non-zero residuals are required for a run to count. Sampling, not proof.",
          "Trusted: reference mathematics (refmath), the forward-error bound gamma=8(M+2)u plus subnormal slack; comparisons with non-finite operands are gated out and counted.",
          "5 (C02), 4"),
  "C04": ("exploration",
          "deterministic simulation: seeded fits over an optimizer-knob swarm, observed step by step through a tap around the real optimizer and through the model seam",
          "Each seeded fit runs twice, through LevMarSolver::fit and through the same optimizer on a tap around a twin problem (model-call logs must agree). Checked: Ok exactly for successful terminations; the returned problem reports the parameters the optimizer applied last (restore after a rejected last step included); for successful fits of models that evaluate: coefficients/residuals bitwise equal to a fresh problem at the returned parameters, residual identity, coefficients optimal on the objective against an independent f64 least-squares solution (gated on conditioning and truncation threshold), reported objective = 1/2||r||^2, objective not above the initial one; evaluations within patience*(P+1) and parameter applications within evaluations. The knob swarm reaches every termination reason (counted in the evidence). Sampling, not proof.",
          "Trusted: tap, reference least squares (modified Gram-Schmidt in f64), one-sided Jacobi singular values for the gates.",
          "5 (C04), 4"),
  "C09": ("fault_enumeration",
          "deterministic simulation with fault injection: every model-call position of a seeded scenario gets a transient and a persistent failure; oracle over the recorded history plus a tap around the real optimizer",
          "For each seeded scenario (build, caller-driven updates/queries, a complete fit with statistics, a recovery update) the sequence of model calls is learned fault-free and then every position is re-executed with a failing call (transient, persistent, burst, fail-after-mutating, wrong-length closure output), on hand-written and builder-made models, sequential and parallel (simulated schedules decide which column hits the failing derivative). After a failed update residuals/coefficients/Jacobian must be absent; a failed derivative yields no Jacobian; anything present must equal bitwise the state of a fresh fault-free problem at the reported parameters; an optimizer that received None must lead to Err; a failure during the statistics must lead to Err; the first clean update afterwards recovers; nothing panics. Exhaustive over single-fault positions of the generated scenarios, sampled over scenarios and multi-fault plans.",
          "Trusted: simulated models, event log, the tap (pass-through LeastSquaresProblem) and that the tapped optimizer run equals the production fit (checked per run by comparing model-call logs; divergent runs skip the tap-based rules).",
          "5 (C09), 3.3, 3.4"),
  "C10": ("exploration",
          "deterministic simulation: seeded operation histories with injected model failures, differential against a freshly built problem, heap-fill fault injection",
          "Seeded caller-driven histories (revisits, extreme parameters, failed updates, clones, conversions, whole fits) on hand-written and builder-made models, sequential and parallel flavours under simulated rayon schedules; after every clean update the reported coefficients/residuals/Jacobian must be bitwise equal to those of a freshly built problem at the same parameters, re-queries must be bitwise stable, and every scenario is executed under three heap fill patterns whose observable outputs must be bitwise identical (uninitialised memory would differ). 8-12% of the scenarios add concurrent callers: 2-4 caller threads query the shared problem through &self at the same time under shuttle's seeded scheduler (scheduling points at every model call) and must each see bitwise what a lone caller saw. Rare scenario classes: consecutive updates that differ only in the sign of a zero (with a model family whose value depends on it), 1 000-70 000 consecutive updates on one object ('marathon', half of them beyond 2^16), giant dimensions. Miri layers (real code under miri's seeded scheduler, tiny problems): quick tier 6 seeds of mode c10c (three caller threads on one problem, preemption rate 0.4: races inside the library's own arithmetic, below the model-call granularity of the simulated callers); thorough tier 16 seeds each of c10 (every returned element read: uninitialised memory) and c10c. Sampling, not proof.",
          "Trusted: the simulator's model implementations and event log; IEEE determinism of one binary. Heap garbage is modelled by uniform fill patterns.",
          "5 (C10), 3.4, 3.6"),
}

CLAIMED.update({
  "C06": ("exploration",
          "deterministic simulation: lock-step refinement of a weighted problem against its row-scaled unweighted twin along one simulated history (caller-driven, then the real optimizer through a tap with the twin slaved to it), plus unit-weight and zero-weight/deleted-row twins",
          "From one seeded scenario two problems are built: A with diagonal weights w, B without weights whose model multiplies row i of the basis matrix and of every derivative matrix by w_i and whose observations are w.Y. Both follow the same history: build, caller-driven updates and Jacobians, then every parameter vector A's optimizer applies (accepted and rejected trial steps) is replayed on B and residuals and Jacobian are compared at every step; finally fit_with_statistics runs independently on both and results, reduced chi2 and covariance are compared. Equality is demanded bitwise where it holds bitwise (probe) and otherwise within conditioning-aware tolerances with explicit gates (counted). Further twins: all-ones weights vs none; one weight 0 vs that row deleted (its residual must be exactly 0, everything else equal). No fault or schedule enters this property; the simulator contributes the optimizer-driven history and the lock-step comparison. Sampling, not proof.",
          "Trusted: reference singular values (one-sided Jacobi, f64) for the gates; tolerances include a floor for the accuracy nalgebra's SVD actually delivers (about 1e-10 in f64). A decomposition that does not reconstruct its input is diagnosed separately (class SVD_INACCURATE, a known third-party finding).",
          "5 (C06), 4"),
  "C11": ("exploration",
          "deterministic simulation of the rayon pool: seeded schedules (pool size 1-16, steal/migration, arm order, truly overlapped arms under shuttle's seeded schedulers) decide every join; parallel vs sequential twin and parallel vs parallel under other schedules",
          "The parallel problem runs on a fork of rayon-core whose join/join_context/current_num_threads consult a seeded executor; rayon's iterator layer and nalgebra's column producers are real. One scenario is executed as the parallel problem under its schedule (optimizer on a tap), as the sequential twin, through LevMarSolver::fit (conversion to the sequential type must preserve state), and under two further schedules/pool sizes; 10-20% of runs overlap the two arms of stolen joins on shuttle threads with scheduling points at every model call. Checked: residuals/coefficients bitwise equal between flavours, Jacobians equal (bitwise probe, tolerance 64u of the column scale as requirement), the optimizer's whole trajectory and result equal while Jacobians are bitwise equal, the same parallel problem bitwise identical under every schedule and pool size, into_sequential and fit preserve state, a failing derivative yields None under every schedule, the real pool is never entered (probe). 6-8% of the scenarios add concurrent callers on the shared parallel problem (2-4 caller threads, several column loops on the one simulated pool, interleaved by shuttle's seeded scheduler): every caller sees what a lone caller saw; with failing model calls in flight, no caller loses its Jacobian to another caller's failure. Simulated worker identities (current_thread_index): a stolen arm runs on an idle simulated worker. Miri layers on the REAL rayon-core pool under miri's seeded scheduler (tiny problems): quick tier 6 seeds of mode c11c (2-3 workers for 5 Jacobian columns, preemption rate 0.4); thorough tier 16 seeds of c11 (2-4 threads, two caller threads, a fit) and 24 of c11c. Sampling, not proof.",
          "Trusted: the fork's seam (3 call sites, 1 module); the executor generates only outcomes a real pool can produce. Races inside one column computation are invisible to it; the miri layer of the thorough tier covers them on tiny problems.",
          "5 (C11), 3.5"),
  "C08": ("exploration",
          "deterministic simulation: seeded fits from far and hostile starts/values with non-finite model output injected at chosen calls, under a hang watchdog and a logical step bound, in both build profiles",
          "build -> set_params -> fit / fit_with_statistics -> confidence band under two regimes: 'far' (starts over twelve decades with random signs; the real optimizer walks into overflow and badly scaled bases on its own) and 'hostile' (IEEE special values in x, y, w, alpha, epsilon; degenerate shapes; non-finite values injected into model or closure output once / in bursts / forever). Single-threaded worker processes; a watchdog ends a worker whose model-seam heartbeat stalls and the hang must reproduce in isolation before it is reported. Checked: no operation panics, none hangs, model calls per fit stay within the logical bound derived from patience*(P+1), Ok results expose finite values (an empty cache is the permitted rejected state). Both build profiles. Sampling, not proof. Rare scenario classes added later: mis-shaped weights/observations offered to build(), 1 000-70 000 consecutive updates on one problem object (half beyond 2^16), giant dimensions (65-80 parameters, up to 130 right-hand sides, up to 70 000 samples).",
          "Trusted: the watchdog's wall clock (only to end a run that stopped making progress). Non-termination shorter than the limit and cost blow-ups below the step bound are invisible.",
          "5 (C08), 3.6"),
  "C12": ("fault_enumeration",
          "deterministic simulation with fault injection: every model-call position inside the statistics computation gets a failure, in both build profiles; failing and under-determined fits generated around the N = M+P boundary",
          "fit_with_statistics over seeded scenarios with N-(M+P) in {-3..+3, large}, weights on/off, f32/f64, both build profiles (overflow checks on and off, separate worker binaries). A tap twin locates the optimizer's last model call; every model call after it (P derivative calls and two evaluations) is re-executed with a transient and a persistent failure. Checked: never panics; N <= M+P => Err; failed fit => Err; model failure inside the statistics => Err; Err carries the problem; for Ok: N > M+P, the reported weighted residuals are W(y - Phi_ref(alpha_hat) c_hat) of the final state within a forward-error bound, reduced chi2 = ||r||^2/(N-M-P), standard error = sqrt(chi2). The three Err clauses and the residual consistency are what the simulation decides; the chi2/sigma arithmetic rides along. The statistics' calls are located as the last calls made by the library call itself (the harness's own follow-up queries are measured apart). Rare scenario classes: data sets of 4096-20 000 samples incl. exact multiples of 4096, purely linear hand-written models (no nonlinear parameter: NoParameters must come back as Err).",
          "Trusted: tap twin equals the production fit (checked per run through the model-call logs).",
          "5 (C12)"),
  "C17": ("fault_enumeration",
          "deterministic simulation with fault injection on the closure seam: seeded call histories on bare builder-made models against a reference state machine, every (closure, wrong output length) pair enumerated",
          "Seeded histories of set_params (right and wrong lengths), eval and eval_partial_deriv (in- and out-of-range indices) on models made by SeparableModelBuilder whose function and derivative closures return a wrong-length vector (empty, shorter, longer, doubled) at a seeded call index; for each seeded model every (closure, length) pair is executed. Reference model: the last accepted parameter vector. Checked: wrong parameter count => IncorrectParameterCount{expected,actual} and params()/all later evaluations bitwise unchanged; index >= P => DerivativeIndexOutOfBounds{index} without calling user code; wrong-length output => UnexpectedFunctionOutput naming N and a length actually injected; successful results are N x M and bitwise equal to the user functions at the accepted parameters; nothing panics. In addition, for models with several functions: two or three closures of the same evaluation misbehave with lengths that cancel in the total (n+d and n-d, 2n and empty).",
          "Trusted: refmath (the closures and the oracle share the pure function definitions).",
          "5 (C17)"),
})

NOT_APPLICABLE = {
  "C01": "Optimality of the coefficients for given (Phi, W, y, eps) is a pure linear-algebra relation over inputs; no schedule, fault, clock or interleaving occurs in it (the 'at every alpha in effect' part is C10). Input generation alone would be property-based testing, not simulation.",
  "C03": "The Kaufman Jacobian formula is a relation over (model, alpha, data, weights) at one state; its only fault clause (failed derivative => no Jacobian) is decided under C09 and C11.",
  "C05": "Convergence of the optimisation algorithm on certified problem families is a numerical-analysis claim over inputs; nothing in it can be scheduled, delayed or made to fail.",
  "C07": "Column-wise independence of multiple right-hand sides at a given alpha is a relation over inputs; no history, schedule or fault in it.",
  "C13": "Covariance/correlation identities are matrix identities over inputs of one finished fit.",
  "C14": "The Student-t band formula is a function of inputs and p.",
  "C15": "Acceptance language of builder call sequences: a deterministic state machine with no environment; deciding it is enumeration against a specification (model-based testing / model checking), not fault simulation.",
  "C16": "Parameter routing of built models is a pure function of the specification.",
  "C18": "Acceptance predicate and initial state of the problem builder over its inputs; the construction-time model failure it mentions is inside C09's fault space.",
  "C19": "A statement about relative frequencies over noise realisations (Monte-Carlo statistics with a significance level); randomness is the subject there, not a schedule.",
}

def main():
    checks = []
    for pid in sorted(CLAIMED):
        cat, tech, text, note, ref = CLAIMED[pid]
        checks.append({
            "property_id": pid,
            "quick_cmd": f"./check {pid} quick",
            "thorough_cmd": f"./check {pid} thorough",
            "evidence_file": f"/verif/evidence/{pid}.json",
            "replay_cmd_template": f"./check {pid} --replay {{path}}",
            "engine": "vpsim",
            "level_claimed": {"category": cat, "text": text, "design_ref": f"DESIGN.md section {ref}"},
            "level_note": note,
            "technique": tech,
        })
    na = [{"property_id": k, "reason": v} for k, v in sorted(NOT_APPLICABLE.items()) if k not in CLAIMED]
    m = {
        "version": 1,
        "setup_cmd": "./check --setup",
        "hooks": {
            "guard": "none",
            "enable": "no hooks in /repo: all seams are external (public SeparableNonlinearModel trait and builder closures, [patch.crates-io] fork of rayon-core in the shadow manifest /verif/sim/Cargo.toml, global allocator of the simulator binary, public LeastSquaresProblem trait)",
            "baseline_off_cmd": "cd /repo && cargo nextest run --workspace --no-fail-fast --offline || cargo test --workspace --no-fail-fast --offline",
            "source_commits": [],
            "add_only": True,
        },
        "engines": [{
            "name": "vpsim",
            "path": "/verif/sim",
            "serves_properties": sorted(CLAIMED),
            "kind_free_text": "deterministic simulator with fault injection: seeded scenarios, simulated models/closures with fault plans, simulated rayon executor (fork of rayon-core), poisoning allocator, tap around the real optimizer, reference models as oracles, single-threaded worker processes under a hang watchdog, replay files and minimisation",
        }],
        "checks": checks,
        "notes": "Three genuine defects of the pinned tree were repaired in /repo as separate 'fix:' commits (see known_findings.json and DESIGN.md section 6). Properties listed under not_applicable have no schedule, fault, clock or interleaving for a simulator to drive; see DESIGN.md section 2.",
        "not_applicable": na,
    }
    json.dump(m, open("/verif/MANIFEST.json", "w"), indent=1)
    print("MANIFEST.json written:", len(checks), "checks,", len(na), "not applicable")

if __name__ == "__main__":
    main()
