#!/bin/sh
# Development aid: for each given seeded change (isolated, like mutant_iso.sh) run the own property's quick
# check, then re-execute every replay file it wrote in a fresh process WITH the change still applied (must
# reproduce: exit 1 + VIOLATION line) and again on the restored tree (must not reproduce: exit 0).
#   ./replay_selftest.sh <slot> <seeded-dir>...
SLOT="$1"; shift
BASE=/tmp/vpm/$SLOT; R=$BASE/repo; V=$BASE/verif
mkdir -p "$BASE"
[ -d "$R" ] || git -C /repo worktree add --detach "$R" HEAD >/dev/null 2>&1 || exit 2
git -C "$R" checkout -q --detach "$(git -C /repo rev-parse HEAD)" && git -C "$R" checkout -- . && git -C "$R" clean -fdq
mkdir -p "$V"
rsync -a --delete --exclude /sim/target --exclude /.git --exclude /replays --exclude /seeded --exclude /results --exclude /scratch /verif/ "$V"/
sed -i "s#path = \"/repo\"#path = \"$R\"#" "$V/sim/Cargo.toml" "$V/sim/miri/Cargo.toml"
for d in "$@"; do
    n=$(basename "$d"); id=${n%%-*}
    git -C "$R" checkout -- . ; git -C "$R" apply "$(readlink -f "$d")/patch.diff" || { echo "$n: patch does not apply"; continue; }
    rm -rf "$V/replays/$id"
    out=$(cd "$V" && VPSIM_HANG_SECS=8 ./check "$id" quick 2>&1); code=$?
    files=$(echo "$out" | grep "^VIOLATION" | sed 's/.*replay=//')
    nf=0; ok_with=0; ok_without=0
    for f in $files; do
        nf=$((nf + 1))
        (cd "$V" && VPSIM_HANG_SECS=8 ./check "$id" --replay "$f" 2>&1 | grep -q "^VIOLATION property=$id") && ok_with=$((ok_with + 1))
    done
    git -C "$R" checkout -- .
    for f in $files; do
        (cd "$V" && VPSIM_HANG_SECS=8 ./check "$id" --replay "$f" >/dev/null 2>&1) && ok_without=$((ok_without + 1))
    done
    echo "$n: check exit=$code replay files=$nf reproduced with the change=$ok_with/$nf clean on the restored tree=$ok_without/$nf"
done
